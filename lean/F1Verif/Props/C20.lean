/-
C20 — combined scenarios run every component, in order, in setup and in each iteration.
-/
import F1Verif.Props.Handle
namespace F1.Props.C20
open F1.Handle F1.Props.Handle

theorem executedComps_all (ps : List Prog) (h : ∀ p ∈ ps, p.stops = false) : executedComps ps = ps := by
  induction ps with
  | nil => rfl
  | cons p ps ih =>
    have hp := h p (by simp)
    simp [executedComps, hp, ih (fun q hq => h q (List.mem_cons_of_mem _ hq))]

theorem executedComps_stop (pre post : List Prog) (p : Prog) (h : ∀ q ∈ pre, q.stops = false)
    (hp : p.stops = true) : executedComps (pre ++ p :: post) = pre ++ [p] := by
  induction pre with
  | nil => simp [executedComps, hp]
  | cons q pre ih =>
    have hq := h q (by simp)
    simp [executedComps, hq, ih (fun r hr => h r (List.mem_cons_of_mem _ hr))]

/-- each component's setup runs exactly once, in the given order, against the same handle
(the handle is threaded through `execComps`) -/
theorem C20_setup_order (setups : List Prog) (h : ∀ p ∈ setups, p.stops = false) :
    (execComps Ev.setup setups 0 {} []).2.1.filterMap setupIdx = List.range setups.length := by
  have := execComps_order Ev.setup setupIdx (fun _ => rfl) (fun _ => rfl) setups 0 {} []
  rw [this]; simp [ranIdx, executedComps_all setups h]

theorem filterMap_body (iter : Nat) (l : List Ev) :
    l.filterMap (bodyIdx iter) = (l.filter isBodyEv).filterMap (bodyIdx iter) := by
  induction l with
  | nil => rfl
  | cons e es ih => cases e <;> simp_all [bodyIdx, isBodyEv, List.filter_cons, List.filterMap_cons]

/-- each iteration invokes the components' iteration functions in the given order with that
iteration's handle, up to and including the first component that stops -/
theorem C20_iter_order (cl : Nat → Prog) (bodies : List Prog) (iter : Nat) (t : T) (l : List Ev) :
    (runIter cl bodies iter t l).2.1.filterMap (bodyIdx iter) = l.filterMap (bodyIdx iter) ++ ranIdx bodies 0 := by
  unfold runIter
  simp only
  obtain ⟨_, _, _, t4, _⟩ := teardown_spec cl (execComps (Ev.body iter) bodies 0 t.reset l).1
    (execComps (Ev.body iter) bodies 0 t.reset l).2.1
  have ho := execComps_order (Ev.body iter) (bodyIdx iter) (fun _ => by simp [bodyIdx]) (fun _ => rfl)
    bodies 0 t.reset l
  rw [List.filterMap_append, filterMap_body, t4, ← filterMap_body, ho]
  simp [bodyIdx]

/-- a component that stops the iteration (FailNow or a panic) prevents the later components from
running in that iteration, and the iteration is reported failed -/
theorem C20_stop (cl : Nat → Prog) (pre post : List Prog) (p : Prog) (iter : Nat) (t : T) (l : List Ev)
    (h : ∀ q ∈ pre, q.stops = false) (hp : p.stops = true) :
    ranIdx (pre ++ p :: post) 0 = List.range (pre.length + 1) ∧
    (runIter cl (pre ++ p :: post) iter t l).2.2 = true := by
  constructor
  · simp [ranIdx, executedComps_stop pre post p h hp]
  · rw [Handle.C07_classified]
    unfold compsMark
    rw [executedComps_stop pre post p h hp]
    have : marksFailure p = true := by
      unfold marksFailure
      unfold Prog.stops at hp
      obtain ⟨a, ha, hs⟩ := List.any_eq_true.mp hp
      exact List.any_eq_true.mpr ⟨a, ha, by cases a <;> simp_all [Act.stops, Act.marks]⟩
    simp [this]

/-- … in that iteration only: what the next iteration does is independent of it -/
theorem C20_next_iteration_runs_all (cl : Nat → Prog) (bodies : List Prog) (iter : Nat) (t t' : T) (l l' : List Ev) :
    (runIter cl bodies iter t l).2.2 = (runIter cl bodies iter t' l').2.2 :=
  Handle.C07_independent cl bodies iter t t' l l'

-- non-vacuity: three components, the second FailNows in iteration 1 only
example : ((runAll ⟨[[.log 10], [.log 11], [.log 12]],
    fun i => [[.log 0], if i = 1 then [.failNow] else [.log 1], [.log 2]], fun _ => []⟩ 2).log.filter isBodyEv,
    (runAll ⟨[[.log 10], [.log 11], [.log 12]],
    fun i => [[.log 0], if i = 1 then [.failNow] else [.log 1], [.log 2]], fun _ => []⟩ 2).outcomes)
    = ([.body 1 0, .body 1 1, .body 2 0, .body 2 1, .body 2 2], [true, false]) := by decide

end F1.Props.C20
