/-
Invariants of the trigger-pool interleaving model (shared by C02, C03, C04, C05).
-/
import F1Verif.Model.TriggerPool
namespace F1.Props.Pool
open F1.TriggerPool

/-- the counting part of the invariant -/
structure Counting (W : Nat) (s : State) : Prop where
  /-- conservation: every installed request is started, dropped, refused by the limit, discarded
  because of the limit, still pending, or in transit -/
  cons : s.requested = s.started + s.dropped + s.refused + s.discarded + pos s.num + inTransit s
  total : workersTotal s = W
  ids : (s.limit = 0 → s.started = s.counter) ∧ (s.limit > 0 → s.started = min (s.counter : Int) s.limit)
  nonneg : 0 ≤ s.dropped ∧ 0 ≤ s.discarded ∧ 0 ≤ s.refused ∧ 0 ≤ s.started
  tIdle : (s.tpc = .idle ∨ s.tpc = .hook ∨ s.tpc = .locked) → s.tOld = 0
  sIdle : (s.spc = .waiting ∨ s.spc = .flagSet ∨ s.spc = .locked ∨ s.spc = .done) → s.sOld = 0

theorem counting_init (W N : Nat) : Counting W (init W N) := by
  refine ⟨by simp [init, inTransit, pos], by simp [init, workersTotal], ?_, by simp [init], by simp [init], by simp [init]⟩
  simp only [init]; omega

theorem counting_step (W : Nat) (s s' : State) (e : Ev) (h : Counting W s) (hs : step false s e = some s') :
    Counting W s' := by
  obtain ⟨cons, total, ids, nonneg, tIdle, sIdle⟩ := h
  cases e <;> simp only [step, Bool.false_eq_true, false_or, true_and, Bool.not_false, Bool.true_and] at hs <;> (repeat' split at hs) <;> cases hs <;>
    (refine ⟨?_, ?_, ?_, ?_, ?_, ?_⟩) <;>
    first
    | (intro hh; simp_all; done)
    | (simp only [inTransit, pos, workersTotal, limitReached] at * ; omega)
    | (have hT := tIdle (by simp_all); simp only [inTransit, pos, workersTotal, limitReached] at *; omega)
    | (have hS := sIdle (by simp_all); simp only [inTransit, pos, workersTotal, limitReached] at *; omega)

/-! ### numeric codes for the enumerations, so that `omega` can decide the protocol invariant -/

def lockCode : Lock → Nat | .free => 0 | .ticker => 1 | .stopper => 2 | .worker => 3
def tCode : TPc → Nat | .idle => 0 | .hook => 1 | .locked => 2 | .swapped => 3 | .broadcasted => 4 | .unlocked => 5
def sCode : SPc → Nat | .waiting => 0 | .flagSet => 1 | .locked => 2 | .swapped => 3 | .broadcasted => 4 | .unlocked => 5 | .done => 6
def bCode : Bool → Nat | false => 0 | true => 1

theorem lockCode_free : lockCode Lock.free = 0 := rfl
theorem lockCode_ticker : lockCode Lock.ticker = 1 := rfl
theorem lockCode_stopper : lockCode Lock.stopper = 2 := rfl
theorem lockCode_worker : lockCode Lock.worker = 3 := rfl
theorem tCode_idle : tCode TPc.idle = 0 := rfl
theorem tCode_hook : tCode TPc.hook = 1 := rfl
theorem tCode_locked : tCode TPc.locked = 2 := rfl
theorem tCode_swapped : tCode TPc.swapped = 3 := rfl
theorem tCode_broadcasted : tCode TPc.broadcasted = 4 := rfl
theorem tCode_unlocked : tCode TPc.unlocked = 5 := rfl
theorem sCode_waiting : sCode SPc.waiting = 0 := rfl
theorem sCode_flagSet : sCode SPc.flagSet = 1 := rfl
theorem sCode_locked : sCode SPc.locked = 2 := rfl
theorem sCode_swapped : sCode SPc.swapped = 3 := rfl
theorem sCode_broadcasted : sCode SPc.broadcasted = 4 := rfl
theorem sCode_unlocked : sCode SPc.unlocked = 5 := rfl
theorem sCode_done : sCode SPc.done = 6 := rfl
theorem bCode_true : bCode true = 1 := rfl
theorem bCode_false : bCode false = 0 := rfl

theorem lock_eq (a b : Lock) : a = b ↔ lockCode a = lockCode b := by cases a <;> cases b <;> simp [lockCode]
theorem t_eq (a b : TPc) : a = b ↔ tCode a = tCode b := by cases a <;> cases b <;> simp [tCode]
theorem s_eq (a b : SPc) : a = b ↔ sCode a = sCode b := by cases a <;> cases b <;> simp [sCode]
theorem b_true (a : Bool) : a = true ↔ bCode a = 1 := by cases a <;> simp [bCode]
theorem b_false (a : Bool) : a = false ↔ bCode a = 0 := by cases a <;> simp [bCode]
theorem b_le (a : Bool) : bCode a ≤ 1 := by cases a <;> simp [bCode]
theorem t_le (a : TPc) : tCode a ≤ 5 := by cases a <;> simp [tCode]
theorem s_le (a : SPc) : sCode a ≤ 6 := by cases a <;> simp [sCode]
theorem lock_le (a : Lock) : lockCode a ≤ 3 := by cases a <;> simp [lockCode]

/-- a state change that sleepers must learn about has been made and its broadcast is still to come -/
def Owed (s : State) : Prop := s.tpc = .swapped ∨ s.spc = .flagSet ∨ s.spc = .locked ∨ s.spc = .swapped

/-- the protocol part: who holds the pool lock, the stop flag, and the absence of lost wake-ups -/
structure Proto (s : State) : Prop where
  lockW : (s.lock = .worker → s.w3b = 1) ∧ (s.lock ≠ .worker → s.w3b = 0)
  lockT : s.lock = .ticker ↔ (s.tpc = .locked ∨ s.tpc = .swapped ∨ s.tpc = .broadcasted)
  lockS : s.lock = .stopper ↔ (s.spc = .locked ∨ s.spc = .swapped ∨ s.spc = .broadcasted)
  stopFlag : s.stop = true ↔ s.spc ≠ .waiting
  /-- a worker sleeps on the condition variable only while there is nothing to do and the pool is
  not stopping — or the broadcast that will wake it is already owed -/
  noLost : s.sleeping > 0 → (s.num ≤ 0 ∧ s.stop = false) ∨ Owed s
  /-- once the stopper has drained the pending counter it never becomes positive again -/
  afterStop : (s.spc = .swapped ∨ s.spc = .broadcasted ∨ s.spc = .unlocked ∨ s.spc = .done) → s.num ≤ 0

theorem owed_iff (s : State) : broadcastOwed s = true ↔ Owed s := by
  unfold broadcastOwed Owed
  cases s.tpc <;> cases s.spc <;> simp

theorem proto_init (W N : Nat) : Proto (init W N) := by
  refine ⟨by simp [init], by simp [init], by simp [init], by simp [init], by simp [init, Owed], by simp [init]⟩

theorem proto_step (s s' : State) (e : Ev) (h : Proto s) (hs : step false s e = some s') : Proto s' := by
  obtain ⟨lockW, lockT, lockS, stopFlag, noLost, afterStop⟩ := h
  have b1 := b_le s.stop
  have b2 := t_le s.tpc
  have b3 := s_le s.spc
  have b4 := lock_le s.lock
  cases e <;> simp only [step, Bool.false_eq_true, false_or, true_and, Bool.not_false, Bool.true_and] at hs <;> (repeat' split at hs) <;> cases hs <;>
    (refine ⟨?_, ?_, ?_, ?_, ?_, ?_⟩) <;>
    (simp only [Owed, lock_eq, t_eq, s_eq, b_true, b_false, ne_eq, lockCode_free, lockCode_ticker, lockCode_stopper, lockCode_worker, tCode_idle, tCode_hook, tCode_locked, tCode_swapped, tCode_broadcasted, tCode_unlocked, sCode_waiting, sCode_flagSet, sCode_locked, sCode_swapped, sCode_broadcasted, sCode_unlocked, sCode_done, bCode_true, bCode_false] at * <;> first | omega | (simp; done) | (simp <;> omega) | skip)

/-- both invariants hold in every reachable state, for every schedule, any number of workers -/
theorem reachable (W N : Nat) (evs : List Ev) :
    ∀ (s s' : State), Counting W s → Proto s → run false s evs = some s' → Counting W s' ∧ Proto s' := by
  induction evs with
  | nil => intro s s' hc hp hr; simp only [run] at hr; injection hr with hr; subst hr; exact ⟨hc, hp⟩
  | cons e es ih =>
    intro s s' hc hp hr
    simp only [run] at hr
    split at hr
    · cases hr
    · rename_i s1 hs1
      exact ih s1 s' (counting_step W s s1 e hc hs1) (proto_step s s1 e hp hs1) hr

theorem reachable_init (W N : Nat) (evs : List Ev) (s : State) (h : run false (init W N) evs = some s) :
    Counting W s ∧ Proto s :=
  reachable W N evs (init W N) s (counting_init W N) (proto_init W N) h

end F1.Props.Pool

