/-
C14 / C08 at the command line: every flag combination is either refused before a run is built or yields a
runnable trigger with at least one worker; the options of the run are the flags, one to one; the exit status
is the documented verdict.
-/
import F1Verif.Model.Cli
import F1Verif.Props.C14
import F1Verif.Props.C08

namespace F1.Props.C14Cli
open F1.Parse F1.Plan F1.Cli F1.Props.C14

theorem durFlag_total (o : Option Bytes) (d : Int) : durFlag o d ≠ .crash := by
  unfold durFlag
  split
  · simp
  · split <;> simp

theorem calcConstant_total (r d : Bytes) : calcConstant r d ≠ .crash :=
  bind_not_crash _ _ (C14_rate_total r) (fun _ => newDistribution_total _ _)

theorem calcStaged_total (f : Int) (s d : Bytes) : calcStaged f s d ≠ .crash :=
  bind_not_crash _ _ (C14_stages_total s) (fun _ => newDistribution_total _ _)

theorem calcRamp_total (a b d : Bytes) (dur : Int) : calcRamp a b d dur ≠ .crash := by
  refine bind_not_crash _ _ (C14_rate_total a) (fun s => bind_not_crash _ _ (C14_rate_total b) (fun e => ?_))
  split
  · simp
  · split
    · simp
    · split
      · simp
      · exact newDistribution_total _ _

theorem calcGaussian_total (f sd : Int) (w d : Bytes) (g : Bool) : calcGaussian f sd w d g ≠ .crash := by
  unfold calcGaussian
  split
  · split
    · simp
    · split
      · simp
      · exact newDistribution_total _ _
  · simp

theorem ok_not_crash {α} (v : α) : (Res.ok v : Res α) ≠ .crash := by simp

theorem trigger_total (a : Args) (m : Int) : trigger a m ≠ .crash := by
  unfold trigger
  simp only
  split
  · exact bind_not_crash _ _ (calcConstant_total _ _) (fun _ => ok_not_crash _)
  · split
    · exact bind_not_crash _ _ (durFlag_total _ _) (fun _ =>
        bind_not_crash _ _ (calcStaged_total _ _ _) (fun _ => ok_not_crash _))
    · split
      · exact bind_not_crash _ _ (durFlag_total _ _) (fun _ =>
          bind_not_crash _ _ (calcRamp_total _ _ _ _) (fun _ => ok_not_crash _))
      · split
        · exact bind_not_crash _ _ (durFlag_total _ _) (fun _ => bind_not_crash _ _ (durFlag_total _ _) (fun _ =>
            bind_not_crash _ _ (calcGaussian_total _ _ _ _ _) (fun _ => ok_not_crash _)))
        · split <;> simp

/-- C14 (flag level, totality): no flag combination crashes the command — it is refused or accepted. -/
theorem C14_cli_total (a : Args) : plan a ≠ .crash := by
  unfold plan
  split
  · simp
  · refine bind_not_crash _ _ (durFlag_total _ _) (fun m => bind_not_crash _ _ (trigger_total a m) (fun t => ?_))
    simp only
    split
    · simp
    · split <;> simp

theorem trigger_ok (a : Args) (m : Int) (i : Int) (u : Bool) (h : trigger a m = .ok (i, u)) :
    (u = false ∧ 0 < i) ∨ (u = true ∧ i = 0) := by
  unfold trigger at h
  simp only at h
  split at h
  · obtain ⟨v, hv, h⟩ := bind_ok _ _ _ h
    injection h with h; injection h with h1 h2; subst h1; subst h2
    exact Or.inl ⟨rfl, calcConstant_pos _ _ _ hv⟩
  · split at h
    · obtain ⟨f, _, h⟩ := bind_ok _ _ _ h
      obtain ⟨v, hv, h⟩ := bind_ok _ _ _ h
      injection h with h; injection h with h1 h2; subst h1; subst h2
      exact Or.inl ⟨rfl, calcStaged_pos _ _ _ _ hv⟩
    · split at h
      · obtain ⟨d, _, h⟩ := bind_ok _ _ _ h
        obtain ⟨v, hv, h⟩ := bind_ok _ _ _ h
        injection h with h; injection h with h1 h2; subst h1; subst h2
        exact Or.inl ⟨rfl, calcRamp_pos _ _ _ _ _ hv⟩
      · split at h
        · obtain ⟨f, _, h⟩ := bind_ok _ _ _ h
          obtain ⟨sd, _, h⟩ := bind_ok _ _ _ h
          obtain ⟨v, hv, h⟩ := bind_ok _ _ _ h
          injection h with h; injection h with h1 h2; subst h1; subst h2
          exact Or.inl ⟨rfl, calcGaussian_pos _ _ _ _ _ _ hv⟩
        · split at h
          · injection h with h; injection h with h1 h2; subst h1; subst h2
            exact Or.inr ⟨rfl, rfl⟩
          · cases h

/-- C14 (flag level, runnable): an accepted flag combination has at least one worker and — unless it is the
users mode, which has no ticks — a positive tick interval; it named a registered scenario and was well formed. -/
theorem C14_cli_runnable (a : Args) (p : Cli.Plan) (h : plan a = .ok p) :
    1 ≤ p.conc ∧ ((p.users = false ∧ 0 < p.interval) ∨ (p.users = true ∧ p.interval = 0)) ∧
    a.scenarioKnown = true ∧ a.wellFormed = true := by
  unfold plan at h
  split at h
  · cases h
  · rename_i hw
    obtain ⟨m, _, h⟩ := bind_ok _ _ _ h
    obtain ⟨t, ht, h⟩ := bind_ok _ _ _ h
    simp only at h
    split at h
    · cases h
    · split at h
      · cases h
      · rename_i hc hs
        injection h with h; subst h
        obtain ⟨i, u⟩ := t
        refine ⟨by simp only; omega, trigger_ok a m i u ht, by simpa using hs, by simpa using hw⟩

/-- C15/C14 (flag level, one to one): the options of the run are the flags as typed, absent flags taking the
registered defaults (concurrency 100, everything else 0 / off). -/
theorem C14_cli_options (a : Args) (p : Cli.Plan) (h : plan a = .ok p) :
    p.conc = a.conc.getD 100 ∧ p.maxIt = a.maxIt.getD 0 ∧ p.maxFail = a.maxFail.getD 0 ∧
    p.maxFailRate = a.maxFailRate.getD 0 ∧ p.ignDrop = a.ignDrop ∧ durFlag a.maxDur 1000000000 = .ok p.maxDur := by
  unfold plan at h
  split at h
  · cases h
  · obtain ⟨m, hm, h⟩ := bind_ok _ _ _ h
    obtain ⟨t, _, h⟩ := bind_ok _ _ _ h
    simp only at h
    split at h
    · cases h
    · split at h
      · cases h
      · injection h with h; subst h
        exact ⟨rfl, rfl, rfl, rfl, rfl, hm⟩

/-- a concurrency below one is always refused, whatever else is on the line -/
theorem C14_cli_conc_refused (a : Args) (c : Int) (hc : a.conc = some c) (h0 : c < 1) : ∀ p, plan a ≠ .ok p := by
  intro p h
  have := (C14_cli_runnable a p h).1
  have := (C14_cli_options a p h).1
  rw [hc] at this
  simp at this
  omega

/-- C08 (exit status): an accepted command line exits with an error exactly when the documented verdict is
"failed", for the options the flags spelled. -/
theorem C08_cli_exit (p : Cli.Plan) (stageErr : Bool) (c : Verdict.Counts) :
    exitError p stageErr c = true ↔ Verdict.FailedSpec stageErr p.opts c :=
  F1.Props.C08.C08_cli stageErr p.opts c

-- non-vacuity: `run constant -r 5/200ms --distribution none -c 3 --max-failures 2 s`
example : plan { mode := b_constant, rate := some [53, 47, 50, 48, 48, 109, 115], dist := some b_none, conc := some 3,
                 maxFail := some 2 } =
    .ok { interval := 200000000, users := false, conc := 3, maxDur := 1000000000, maxIt := 0, maxFail := 2,
          maxFailRate := 0, ignDrop := false } := by decide
-- the defaults alone are accepted: `run constant s` is 1/s, regular distribution over 100 ms sub-ticks, 100 workers
example : plan { mode := b_constant } =
    .ok { interval := 100000000, users := false, conc := 100, maxDur := 1000000000, maxIt := 0, maxFail := 0,
          maxFailRate := 0, ignDrop := false } := by decide
-- `--ramp-duration 0` falls back to --max-duration, which is shorter than the rate unit here: refused
example : plan { mode := b_ramp, startRate := some [49, 47, 115], endRate := some [53, 47, 115], rampDur := some [48],
                 maxDur := some [53, 48, 48, 109, 115] } = .err := by decide

end F1.Props.C14Cli
