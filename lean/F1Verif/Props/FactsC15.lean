/-
C15 — regenerated facts: the anchored functions still read as the model of C15 assumes.
`Generated.*` is rewritten from /repo's working tree on every run; `Expected.*` is what the model was written against.
-/
import F1Verif.Generated.Facts
import F1Verif.Expected
namespace F1.Props.FactsC15

theorem fact_file_runStage : F1.Generated.skel_file_runStage = F1.Expected.skel_file_runStage := by rfl
theorem fact_file_newStagesWorker : F1.Generated.skel_file_newStagesWorker = F1.Expected.skel_file_newStagesWorker := by rfl
theorem fact_file_ParseConfigFile : F1.Generated.skel_file_ParseConfigFile = F1.Expected.skel_file_ParseConfigFile := by rfl
theorem fact_file_parseStage : F1.Generated.skel_file_parseStage = F1.Expected.skel_file_parseStage := by rfl
theorem fact_file_validateCommonFields : F1.Generated.skel_file_validateCommonFields = F1.Expected.skel_file_validateCommonFields := by rfl
theorem fact_file_validateCommonFieldsOfStage : F1.Generated.skel_file_validateCommonFieldsOfStage = F1.Expected.skel_file_validateCommonFieldsOfStage := by rfl
theorem fact_file_validateConstantStage : F1.Generated.skel_file_validateConstantStage = F1.Expected.skel_file_validateConstantStage := by rfl
theorem fact_file_validateRampStage : F1.Generated.skel_file_validateRampStage = F1.Expected.skel_file_validateRampStage := by rfl
theorem fact_file_validateStagedStage : F1.Generated.skel_file_validateStagedStage = F1.Expected.skel_file_validateStagedStage := by rfl
theorem fact_file_validateGaussianStage : F1.Generated.skel_file_validateGaussianStage = F1.Expected.skel_file_validateGaussianStage := by rfl
theorem fact_file_validateUsersStage : F1.Generated.skel_file_validateUsersStage = F1.Expected.skel_file_validateUsersStage := by rfl
theorem fact_file_Builder : F1.Generated.skel_file_Builder = F1.Expected.skel_file_Builder := by rfl
theorem fact_file_setEnvs : F1.Generated.skel_file_setEnvs = F1.Expected.skel_file_setEnvs := by rfl
theorem fact_file_unsetEnvs : F1.Generated.skel_file_unsetEnvs = F1.Expected.skel_file_unsetEnvs := by rfl
theorem fact_runcmd_Execute : F1.Generated.skel_runcmd_Execute = F1.Expected.skel_runcmd_Execute := by rfl

end F1.Props.FactsC15
