/-
C15 — regenerated facts: the anchored functions still read as the model of C15 assumes.
`Generated.*` is rewritten from /repo's working tree on every run; `Expected.*` is what the model was written against.
-/
import F1Verif.Generated.Facts
import F1Verif.Expected
namespace F1.Props.FactsC15

theorem fact_file_runStage : F1.Generated.skel_file_runStage = F1.Expected.skel_file_runStage := by rfl
theorem fact_file_newStagesWorker : F1.Generated.skel_file_newStagesWorker = F1.Expected.skel_file_newStagesWorker := by rfl

end F1.Props.FactsC15
