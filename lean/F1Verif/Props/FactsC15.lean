/-
C15 — regenerated facts: the anchored functions still read as the model of C15 assumes.
`Generated.*` is rewritten from /repo's working tree on every run; `Expected.*` is what the model was written against.
-/
import F1Verif.Generated.Facts
import F1Verif.Expected
namespace F1.Props.FactsC15

-- (file_validateCommonFields, file_validateCommonFieldsOfStage, file_validateConstantStage, file_validateRampStage, file_validateStagedStage, file_validateGaussianStage, file_validateUsersStage: re-proved semantically on the regenerated MiniGo programs, see Props/Refine*.lean)

theorem fact_file_runStage : F1.Generated.skel_file_runStage = F1.Expected.skel_file_runStage := by rfl
theorem fact_file_newStagesWorker : F1.Generated.skel_file_newStagesWorker = F1.Expected.skel_file_newStagesWorker := by rfl
theorem fact_file_ParseConfigFile : F1.Generated.skel_file_ParseConfigFile = F1.Expected.skel_file_ParseConfigFile := by rfl
theorem fact_file_parseStage : F1.Generated.skel_file_parseStage = F1.Expected.skel_file_parseStage := by rfl
theorem fact_file_Builder : F1.Generated.skel_file_Builder = F1.Expected.skel_file_Builder := by rfl
theorem fact_file_setEnvs : F1.Generated.skel_file_setEnvs = F1.Expected.skel_file_setEnvs := by rfl
theorem fact_file_unsetEnvs : F1.Generated.skel_file_unsetEnvs = F1.Expected.skel_file_unsetEnvs := by rfl
theorem fact_runcmd_Execute : F1.Generated.skel_runcmd_Execute = F1.Expected.skel_runcmd_Execute := by rfl

end F1.Props.FactsC15
