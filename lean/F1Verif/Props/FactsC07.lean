/-
C07 — regenerated facts: the anchored functions still read as the model of C07 assumes.
`Generated.*` is rewritten from /repo's working tree on every run; `Expected.*` is what the model was written against.
-/
import F1Verif.Generated.Facts
import F1Verif.Expected
namespace F1.Props.FactsC07

-- (t_Fail, t_FailNow, t_Reset, t_Failed, active_Run: re-proved semantically on the regenerated MiniGo programs, see Props/Refine*.lean)

theorem fact_t_handlePanic : F1.Generated.skel_t_handlePanic = F1.Expected.skel_t_handlePanic := by rfl
theorem fact_t_CheckResults : F1.Generated.skel_t_CheckResults = F1.Expected.skel_t_CheckResults := by rfl
theorem fact_t_teardown : F1.Generated.skel_t_teardown = F1.Expected.skel_t_teardown := by rfl
theorem fact_manager_makeIterationStatePool : F1.Generated.skel_manager_makeIterationStatePool = F1.Expected.skel_manager_makeIterationStatePool := by rfl
theorem fact_t_Errorf : F1.Generated.skel_t_Errorf = F1.Expected.skel_t_Errorf := by rfl
theorem fact_t_Error : F1.Generated.skel_t_Error = F1.Expected.skel_t_Error := by rfl
theorem fact_t_Fatalf : F1.Generated.skel_t_Fatalf = F1.Expected.skel_t_Fatalf := by rfl
theorem fact_t_Fatal : F1.Generated.skel_t_Fatal = F1.Expected.skel_t_Fatal := by rfl
theorem fact_active_newIterationState : F1.Generated.skel_active_newIterationState = F1.Expected.skel_active_newIterationState := by rfl

end F1.Props.FactsC07
