/-
C01 — every executed iteration is counted exactly once, with its true outcome.
-/
import F1Verif.Model.ProgressConc

namespace F1.Props.C01
open F1.ProgressConc

/-- what the remaining micro-steps of the collector still hold of each outcome: nothing is held
unless the next step for that outcome is its merge -/
def QueueOk (s : State) : Prop :=
  s.queue = [] ∨ s.queue = program false ∨
  s.queue = [.mergeS, .takeF, .mergeF, .readD] ∨ s.queue = [.takeF, .mergeF, .readD] ∨
  s.queue = [.mergeF, .readD] ∨ s.queue = [.readD]

/-- the counting invariant -/
structure Inv (s : State) : Prop where
  cS : s.lS + s.pS + s.hS = s.aS
  cF : s.lF + s.pF + s.hF = s.aF
  cD : s.dC = s.aD
  mS : s.mS = s.aS + s.iS
  mF : s.mF = s.aF + s.iF
  mD : s.mD = s.aD + s.iD
  q : QueueOk s
  hS0 : s.queue ≠ [.mergeS, .takeF, .mergeF, .readD] → s.hS = 0
  hF0 : s.queue ≠ [.mergeF, .readD] → s.hF = 0

theorem inv_init : Inv {} := by
  refine ⟨rfl, rfl, rfl, rfl, rfl, rfl, Or.inl rfl, fun _ => rfl, fun _ => rfl⟩

theorem inv_step (s s' : State) (e : Ev) (h : Inv s) (hs : step false s e = some s') : Inv s' := by
  obtain ⟨cS, cF, cD, mS, mF, mD, q, hS0, hF0⟩ := h
  cases e <;> simp only [step] at hs
  · injection hs with hs; subst hs
    exact ⟨cS, cF, cD, by simp; omega, mF, mD, q, hS0, hF0⟩
  · split at hs
    · cases hs
    · injection hs with hs; subst hs
      exact ⟨by simp; omega, cF, cD, by simp; omega, mF, mD, q, hS0, hF0⟩
  · injection hs with hs; subst hs
    exact ⟨cS, cF, cD, mS, by simp; omega, mD, q, hS0, hF0⟩
  · split at hs
    · cases hs
    · injection hs with hs; subst hs
      exact ⟨cS, by simp; omega, cD, mS, by simp; omega, mD, q, hS0, hF0⟩
  · injection hs with hs; subst hs
    exact ⟨cS, cF, cD, mS, mF, by simp; omega, q, hS0, hF0⟩
  · split at hs
    · cases hs
    · injection hs with hs; subst hs
      exact ⟨cS, cF, by simp; omega, mS, mF, by simp; omega, q, hS0, hF0⟩
  · -- colStart
    split at hs
    · rename_i hq
      injection hs with hs; subst hs
      have hq' : s.queue = [] := by simpa using hq
      have h1 := hS0 (by rw [hq']; simp)
      have h2 := hF0 (by rw [hq']; simp)
      exact ⟨cS, cF, cD, mS, mF, mD, Or.inr (Or.inl rfl), fun _ => h1, fun _ => h2⟩
    · cases hs
  · -- colStep
    rcases q with q | q | q | q | q | q <;> rw [q] at hs <;> simp only [program] at hs
    · cases hs
    · injection hs with hs; subst hs
      have h1 := hS0 (by rw [q]; simp [program])
      have h2 := hF0 (by rw [q]; simp [program])
      simp only [micro]
      exact ⟨by simp; omega, by simpa using cF, cD, mS, mF, mD, Or.inr (Or.inr (Or.inl rfl)),
        fun h => absurd rfl h, fun _ => by simpa using h2⟩
    · injection hs with hs; subst hs
      have h2 := hF0 (by rw [q]; simp)
      simp only [micro]
      exact ⟨by simp; omega, by simpa using cF, cD, mS, mF, mD, Or.inr (Or.inr (Or.inr (Or.inl rfl))),
        fun _ => rfl, fun _ => by simpa using h2⟩
    · injection hs with hs; subst hs
      have h1 := hS0 (by rw [q]; simp)
      have h2 := hF0 (by rw [q]; simp)
      simp only [micro]
      exact ⟨by simpa using cS, by simp; omega, cD, mS, mF, mD,
        Or.inr (Or.inr (Or.inr (Or.inr (Or.inl rfl)))), fun _ => by simpa using h1, fun h => absurd rfl h⟩
    · injection hs with hs; subst hs
      have h1 := hS0 (by rw [q]; simp)
      simp only [micro]
      exact ⟨by simpa using cS, by simp; omega, cD, mS, mF, mD,
        Or.inr (Or.inr (Or.inr (Or.inr (Or.inr rfl)))), fun _ => by simpa using h1, fun _ => rfl⟩
    · injection hs with hs; subst hs
      have h1 := hS0 (by rw [q]; simp)
      have h2 := hF0 (by rw [q]; simp)
      simp only [micro]
      exact ⟨by simpa using cS, by simpa using cF, cD, mS, mF, mD, Or.inl rfl,
        fun _ => by simpa using h1, fun _ => by simpa using h2⟩

/-- C01 (conservation): for every interleaving of any number of recorders with the collector,
every completed record is in exactly one of: lifetime, period, held by the collect in progress;
the dropped counter and the metric samples are exact up to records still in flight. -/
theorem C01_counts_conserved (evs : List Ev) :
    ∀ (s s' : State), Inv s → run false s evs = some s' → Inv s' := by
  induction evs with
  | nil => intro s s' h hr; simp only [run] at hr; injection hr with hr; subst hr; exact h
  | cons e es ih =>
    intro s s' h hr
    simp only [run] at hr
    split at hr
    · cases hr
    · rename_i s1 hs1
      exact ih s1 s' (inv_step s s1 e h hs1) hr

theorem C01_reachable (evs : List Ev) (s : State) (h : run false {} evs = some s) : Inv s :=
  C01_counts_conserved evs {} s inv_init h

/-- C01 (final exactness): once all iterations have completed, the final totals publish exactly
the number of passed, failed and dropped iterations, and the metric samples carry the same
three counts — whatever interleaving of completions and progress snapshots led there. -/
theorem C01_final_exact (evs : List Ev) (s : State) (h : run false {} evs = some s)
    (hq : quiescent s) :
    ∃ s', run false s (totalEvents false) = some s' ∧
      s'.snapS = s.aS ∧ s'.snapF = s.aF ∧ s'.snapD = s.aD ∧
      s'.mS = s.aS ∧ s'.mF = s.aF ∧ s'.mD = s.aD ∧ s'.aS = s.aS ∧ s'.aF = s.aF ∧ s'.aD = s.aD := by
  have inv := C01_reachable evs s h
  obtain ⟨q1, q2, q3, q4⟩ := hq
  have h1 := inv.hS0 (by rw [q4]; simp)
  have h2 := inv.hF0 (by rw [q4]; simp)
  have c1 := inv.cS; have c2 := inv.cF; have c3 := inv.cD
  have m1 := inv.mS; have m2 := inv.mF; have m3 := inv.mD
  clear inv h
  rcases s with ⟨pS, pF, lS, lF, hS, hF, dC, mS, mF, mD, iS, iF, iD, aS, aF, aD, queue, snapS, snapF, snapD, pub⟩
  simp only at q1 q2 q3 q4 h1 h2 c1 c2 c3 m1 m2 m3
  subst q4
  refine ⟨_, rfl, ?_⟩
  simp [micro]
  omega

/-- misclassification is excluded: a record with outcome `o` touches only `o`'s counters -/
theorem C01_outcome_routed (s s' : State) (h : step false s .finishS = some s') :
    s'.pF = s.pF ∧ s'.lF = s.lF ∧ s'.dC = s.dC ∧ s'.pS = s.pS + 1 := by
  simp only [step] at h
  split at h
  · cases h
  · injection h with h; subst h; simp

theorem C01_outcome_routed_fail (s s' : State) (h : step false s .finishF = some s') :
    s'.pS = s.pS ∧ s'.lS = s.lS ∧ s'.dC = s.dC ∧ s'.pF = s.pF + 1 := by
  simp only [step] at h
  split at h
  · cases h
  · injection h with h; subst h; simp

/-- The pre-repair collector (load, merge, clear) loses a completion that lands between its read
and its reset: one failed iteration recorded, zero reported. -/
theorem legacy_lost_update :
    ∃ s, run true {} [.colStart, .colStep, .colStep, .colStep, .colStep, .colStep, .beginF, .finishF, .colStep, .colStep,
                        .colStart, .colStep, .colStep, .colStep, .colStep, .colStep, .colStep, .colStep] = some s ∧
      quiescent s ∧ s.aF = 1 ∧ s.snapF = 0 := by
  refine ⟨_, rfl, ?_⟩
  decide

-- non-vacuity: three recorders' completions interleaved with two snapshots and a total
example : ∃ s, run false {} [.beginS, .beginF, .colStart, .colStep, .finishS, .finishF, .colStep, .beginS,
    .colStep, .finishS, .colStep, .colStep, .colStart, .colStep, .colStep, .colStep, .colStep, .colStep] = some s ∧
    quiescent s ∧ s.snapS = 2 ∧ s.snapF = 1 := ⟨_, rfl, by decide⟩

end F1.Props.C01
