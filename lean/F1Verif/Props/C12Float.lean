/-
C12, level 2 — the regular distribution in *rounded* arithmetic.

`Props/C12.lean` proves "every cycle sums to its rate" for the exact-arithmetic model, `Props/RefineC12*.lean` show that the
regenerated closure is `regStepG` in any arithmetic and that model in exact arithmetic. This file closes the remaining gap
for the envelope of real configurations: for **any** arithmetic that satisfies `FPSpec` (monotone rounding with relative
error 2⁻⁵³, exact on integers and under Sterbenz' condition — binary64), a cycle of `N ≤ 10⁶` sub-ticks (tick intervals
up to 27 hours) with a rate `0 ≤ r ≤ 10⁷` per tick emits **exactly** `r` iterations: the upward drift of the per-step
ceiling stays below one iteration, and the downward rounding error is rescued by the ceiling at the last sub-tick
(the argument of DESIGN.md, Appendix B).
-/
import F1Verif.Props.FloatSpec
import F1Verif.Props.RefineC12
import Mathlib.Algebra.BigOperators.Group.Finset.Basic
import Mathlib.Algebra.Order.BigOperators.Group.Finset
import Mathlib.Tactic.NormNum
import Mathlib.Tactic.GCongr

set_option linter.unusedSectionVars false

namespace F1.Props.C12Float
open F1.MiniGo F1.FloatSpec F1.Props.Refine

variable {F : Type} [FloatLike F] (S : FPSpec F)

/-- the grid, as a rational -/
def Sc : ℚ := 10000000

/-- what one sub-tick produces before it is split into "emitted" and "kept": `fl(⌈fl(fl(A + q)·10⁷)⌉ / 10⁷)` -/
def zOf (q A : ℚ) : ℚ := S.rnd ((⌈S.rnd (S.rnd (A + q) * Sc)⌉ : ℤ) / Sc)

section bounds
variable {q A : ℚ} (hq0 : 0 ≤ q) (hqU : q ≤ 10000001) (hA0 : 0 ≤ A) (hA1 : A < 1)
include hq0 hqU hA0 hA1

theorem x_bounds : (1 - u) * (A + q) ≤ S.rnd (A + q) ∧ S.rnd (A + q) ≤ (1 + u) * (A + q) ∧ 0 ≤ S.rnd (A + q) := by
  have h : 0 ≤ A + q := by linarith
  exact ⟨rnd_lower S h, rnd_upper S h, rnd_nonneg S h⟩

theorem y_bounds : (1 - u) * ((1 - u) * (A + q)) * Sc ≤ S.rnd (S.rnd (A + q) * Sc) ∧
    S.rnd (S.rnd (A + q) * Sc) ≤ (1 + u) * ((1 + u) * (A + q)) * Sc ∧ 0 ≤ S.rnd (S.rnd (A + q) * Sc) := by
  obtain ⟨hx1, hx2, hx0⟩ := x_bounds S hq0 hqU hA0 hA1
  have hSc : (0:ℚ) < Sc := by unfold Sc; norm_num
  have hxs : 0 ≤ S.rnd (A + q) * Sc := mul_nonneg hx0 (le_of_lt hSc)
  have hu1 : 0 ≤ 1 - u := by unfold u; norm_num
  have hu2 : 0 ≤ 1 + u := by unfold u; norm_num
  refine ⟨?_, ?_, rnd_nonneg S hxs⟩
  · calc (1 - u) * ((1 - u) * (A + q)) * Sc = (1 - u) * (((1 - u) * (A + q)) * Sc) := by ring
      _ ≤ (1 - u) * (S.rnd (A + q) * Sc) := by
        apply mul_le_mul_of_nonneg_left _ hu1
        exact mul_le_mul_of_nonneg_right hx1 (le_of_lt hSc)
      _ ≤ S.rnd (S.rnd (A + q) * Sc) := rnd_lower S hxs
  · calc S.rnd (S.rnd (A + q) * Sc) ≤ (1 + u) * (S.rnd (A + q) * Sc) := rnd_upper S hxs
      _ ≤ (1 + u) * (((1 + u) * (A + q)) * Sc) := by
        apply mul_le_mul_of_nonneg_left _ hu2
        exact mul_le_mul_of_nonneg_right hx2 (le_of_lt hSc)
      _ = (1 + u) * ((1 + u) * (A + q)) * Sc := by ring

theorem c_bounds : S.rnd (S.rnd (A + q) * Sc) ≤ ((⌈S.rnd (S.rnd (A + q) * Sc)⌉ : ℤ) : ℚ) ∧
    ((⌈S.rnd (S.rnd (A + q) * Sc)⌉ : ℤ) : ℚ) < S.rnd (S.rnd (A + q) * Sc) + 1 ∧
    (0 : ℚ) ≤ ((⌈S.rnd (S.rnd (A + q) * Sc)⌉ : ℤ) : ℚ) := by
  obtain ⟨_, _, hy0⟩ := y_bounds S hq0 hqU hA0 hA1
  refine ⟨Int.le_ceil _, Int.ceil_lt_add_one _, ?_⟩
  exact le_trans hy0 (Int.le_ceil _)

/-- (L) a sub-tick never loses more than the three roundings take: `z ≥ (A + q) − 3u(q + 1)` -/
theorem z_lower : A + q - 3 * u * (q + 1) ≤ zOf S q A := by
  obtain ⟨hy1, _, hy0⟩ := y_bounds S hq0 hqU hA0 hA1
  obtain ⟨hc1, _, hc0⟩ := c_bounds S hq0 hqU hA0 hA1
  have hSc : (0:ℚ) < Sc := by unfold Sc; norm_num
  have hu1 : 0 ≤ 1 - u := by unfold u; norm_num
  have hcs : 0 ≤ ((⌈S.rnd (S.rnd (A + q) * Sc)⌉ : ℤ) : ℚ) / Sc := div_nonneg hc0 (le_of_lt hSc)
  have h1 : (1 - u) * (((⌈S.rnd (S.rnd (A + q) * Sc)⌉ : ℤ) : ℚ) / Sc) ≤ zOf S q A := rnd_lower S hcs
  have h2 : (1 - u) * ((1 - u) * (A + q)) ≤ ((⌈S.rnd (S.rnd (A + q) * Sc)⌉ : ℤ) : ℚ) / Sc := by
    rw [le_div_iff₀ hSc]; linarith
  have h3 : (1 - u) * ((1 - u) * ((1 - u) * (A + q))) ≤ zOf S q A :=
    le_trans (mul_le_mul_of_nonneg_left h2 hu1) h1
  have hAq : 0 ≤ A + q := by linarith
  have hu0 : 0 ≤ u := le_of_lt u_pos
  -- (1−u)³ ≥ 1 − 3u, and A + q ≤ q + 1
  have h4 : (1 - 3 * u) * (A + q) ≤ (1 - u) * ((1 - u) * ((1 - u) * (A + q))) := by
    have : (1 - u) * ((1 - u) * ((1 - u) * (A + q))) - (1 - 3 * u) * (A + q) = (3 * u ^ 2 - u ^ 3) * (A + q) := by ring
    have h5 : 0 ≤ 3 * u ^ 2 - u ^ 3 := by unfold u; norm_num
    nlinarith [mul_nonneg h5 hAq]
  have h6 : 3 * u * (A + q) ≤ 3 * u * (q + 1) := by
    apply mul_le_mul_of_nonneg_left _ (by linarith)
    linarith
  linarith

/-- (U) … and never gains more than one grid unit plus the roundings: `z ≤ (A + q) + 1/S + 4u(q + 1) + u` -/
theorem z_upper : zOf S q A ≤ A + q + 1 / Sc + 4 * u * (q + 1) + u := by
  obtain ⟨_, hy2, _⟩ := y_bounds S hq0 hqU hA0 hA1
  obtain ⟨_, hc2, hc0⟩ := c_bounds S hq0 hqU hA0 hA1
  have hSc : (0:ℚ) < Sc := by unfold Sc; norm_num
  have hu2 : 0 ≤ 1 + u := by unfold u; norm_num
  have hcs : 0 ≤ ((⌈S.rnd (S.rnd (A + q) * Sc)⌉ : ℤ) : ℚ) / Sc := div_nonneg hc0 (le_of_lt hSc)
  have h1 : zOf S q A ≤ (1 + u) * (((⌈S.rnd (S.rnd (A + q) * Sc)⌉ : ℤ) : ℚ) / Sc) := rnd_upper S hcs
  have h2 : ((⌈S.rnd (S.rnd (A + q) * Sc)⌉ : ℤ) : ℚ) / Sc ≤ (1 + u) * ((1 + u) * (A + q)) + 1 / Sc := by
    rw [div_le_iff₀ hSc]
    have : ((1 + u) * ((1 + u) * (A + q)) + 1 / Sc) * Sc = (1 + u) * ((1 + u) * (A + q)) * Sc + 1 := by
      field_simp
    rw [this]; linarith
  have h3 : zOf S q A ≤ (1 + u) * ((1 + u) * ((1 + u) * (A + q)) + 1 / Sc) :=
    le_trans h1 (mul_le_mul_of_nonneg_left h2 hu2)
  have hAq : 0 ≤ A + q := by linarith
  have hu0 : 0 ≤ u := le_of_lt u_pos
  have h4 : (1 + u) * ((1 + u) * ((1 + u) * (A + q))) ≤ (A + q) + 4 * u * (A + q) := by
    have : (A + q) + 4 * u * (A + q) - (1 + u) * ((1 + u) * ((1 + u) * (A + q))) = (u - 3 * u ^ 2 - u ^ 3) * (A + q) := by ring
    have h5 : 0 ≤ u - 3 * u ^ 2 - u ^ 3 := by unfold u; norm_num
    nlinarith [mul_nonneg h5 hAq]
  have h6 : 4 * u * (A + q) ≤ 4 * u * (q + 1) := by
    apply mul_le_mul_of_nonneg_left _ (by linarith)
    linarith
  have h7 : (1 + u) * (1 / Sc) ≤ 1 / Sc + u := by
    unfold Sc u; norm_num
  have h8 : (1 + u) * ((1 + u) * ((1 + u) * (A + q)) + 1 / Sc) =
      (1 + u) * ((1 + u) * ((1 + u) * (A + q))) + (1 + u) * (1 / Sc) := by ring
  linarith

/-- (R) the rescue: when what has accumulated is within the roundings of a whole number `m` of iterations, the ceiling
brings the sub-tick up to at least `m` -/
theorem z_rescue (m : ℤ) (hm0 : 0 ≤ m) (hm : m ≤ 10000001)
    (h : Sc * m - 1 < (1 - u) * ((1 - u) * (A + q)) * Sc) : (m : ℚ) ≤ zOf S q A := by
  obtain ⟨hy1, _, _⟩ := y_bounds S hq0 hqU hA0 hA1
  have hSc : (0:ℚ) < Sc := by unfold Sc; norm_num
  -- ⌈y⌉ ≥ 10⁷·m, both integers
  have hy : ((10000000 * m - 1 : ℤ) : ℚ) < S.rnd (S.rnd (A + q) * Sc) := by
    have : ((10000000 * m - 1 : ℤ) : ℚ) = Sc * m - 1 := by unfold Sc; push_cast; ring
    rw [this]; linarith
  have hc : 10000000 * m ≤ ⌈S.rnd (S.rnd (A + q) * Sc)⌉ := by
    have := Int.lt_ceil.mpr hy
    omega
  have hcq : (m : ℚ) ≤ ((⌈S.rnd (S.rnd (A + q) * Sc)⌉ : ℤ) : ℚ) / Sc := by
    rw [le_div_iff₀ hSc]
    have : ((10000000 * m : ℤ) : ℚ) ≤ ((⌈S.rnd (S.rnd (A + q) * Sc)⌉ : ℤ) : ℚ) := by exact_mod_cast hc
    have e : ((10000000 * m : ℤ) : ℚ) = m * Sc := by unfold Sc; push_cast; ring
    linarith
  have hmono := S.rnd_mono _ _ hcq
  have hexact : S.rnd (m : ℚ) = m := S.rnd_int m (by rw [abs_of_nonneg hm0]; omega)
  unfold zOf
  linarith

end bounds

section step
variable (N : ℕ) (r : ℤ) (hN1 : 1 ≤ N) (hN : N ≤ 1000000) (hr0 : 0 ≤ r) (hr : r ≤ 10000000)
include hN1 hN hr0 hr

/-- the per-sub-tick share as the code computes it: `fl(r / N)` -/
def qOf : ℚ := S.rnd ((r : ℚ) / (N : ℚ))

theorem q_bounds : 0 ≤ qOf S N r ∧ qOf S N r ≤ 10000001 ∧ (1 - u) * ((r : ℚ) / N) ≤ qOf S N r ∧ qOf S N r ≤ (1 + u) * ((r : ℚ) / N) := by
  have hNq : (0:ℚ) < N := by exact_mod_cast hN1
  have hrq : (0:ℚ) ≤ r := by exact_mod_cast hr0
  have h0 : (0:ℚ) ≤ (r : ℚ) / N := div_nonneg hrq (le_of_lt hNq)
  have hle : (r : ℚ) / N ≤ 10000000 := by
    rw [div_le_iff₀ hNq]
    have : (r:ℚ) ≤ 10000000 := by exact_mod_cast hr
    have : (1:ℚ) ≤ N := by exact_mod_cast hN1
    nlinarith
  refine ⟨rnd_nonneg S h0, ?_, rnd_lower S h0, rnd_upper S h0⟩
  have := rnd_upper S h0
  unfold qOf
  have hu : (1 + u) * 10000000 ≤ 10000001 := by unfold u; norm_num
  have : (1 + u) * ((r : ℚ) / N) ≤ (1 + u) * 10000000 := by
    apply mul_le_mul_of_nonneg_left hle; unfold u; norm_num
  linarith

/-- one sub-tick of the code (`regStepG`, which the regenerated closure was shown to execute) in terms of `zOf`: what is
emitted plus what is kept is exactly `z`; the kept part stays in `[0, 1)` -/
theorem step_spec (a : F) (hA0 : 0 ≤ S.toRat a) (hA1 : S.toRat a < 1) :
    S.toRat (regStepG N r a).1 + ((regStepG N r a).2 : ℚ) = zOf S (qOf S N r) (S.toRat a) ∧
    0 ≤ S.toRat (regStepG N r a).1 ∧ S.toRat (regStepG N r a).1 < 1 ∧ 0 ≤ (regStepG N r a).2 := by
  obtain ⟨hq0, hqU, _, _⟩ := q_bounds S N r hN1 hN hr0 hr
  have hNq : (0:ℚ) < N := by exact_mod_cast hN1
  -- the operands
  have e_r : S.toRat (FloatLike.ofInt r : F) = r := by
    rw [S.ofInt_spec]; exact S.rnd_int r (by rw [abs_of_nonneg hr0]; omega)
  have e_N : S.toRat (FloatLike.ofInt (N : ℤ) : F) = N := by
    rw [S.ofInt_spec]
    have := S.rnd_int (N : ℤ) (by rw [abs_of_nonneg (by positivity)]; omega)
    simpa using this
  have e_S : S.toRat (FloatLike.ofInt 10000000 : F) = Sc := by
    rw [S.ofInt_spec]; have := S.rnd_int 10000000 (by norm_num); unfold Sc; simpa using this
  have e_1 : S.toRat (FloatLike.ofInt 1 : F) = 1 := by
    rw [S.ofInt_spec]; have := S.rnd_int 1 (by norm_num); simpa using this
  have e_q : S.toRat (FloatLike.div (FloatLike.ofInt r : F) (FloatLike.ofInt (N : ℤ))) = qOf S N r := by
    rw [S.div_spec _ _ (by rw [e_N]; exact ne_of_gt hNq), e_r, e_N]; rfl
  set A := S.toRat a with hA
  set q := qOf S N r with hq
  have e_x : S.toRat (FloatLike.add a (FloatLike.div (FloatLike.ofInt r : F) (FloatLike.ofInt (N : ℤ)))) = S.rnd (A + q) := by
    rw [S.add_spec, e_q]
  obtain ⟨hy1, hy2, hy0⟩ := y_bounds S hq0 hqU hA0 hA1
  obtain ⟨hc1, hc2, hc0⟩ := c_bounds S hq0 hqU hA0 hA1
  have hzU := z_upper S hq0 hqU hA0 hA1
  set y := S.rnd (S.rnd (A + q) * Sc) with hy
  have e_y : S.toRat (FloatLike.mul (FloatLike.add a (FloatLike.div (FloatLike.ofInt r : F) (FloatLike.ofInt (N : ℤ))))
      (FloatLike.ofInt 10000000)) = y := by
    rw [S.mul_spec, e_x, e_S]
  -- y is far below 2⁵²
  have hyB : |y| ≤ 4503599627370496 := by
    rw [abs_of_nonneg hy0]
    have h1 : (1 + u) * ((1 + u) * (A + q)) * Sc ≤ (1 + u) * ((1 + u) * 10000002) * Sc := by
      have hu2 : (0:ℚ) ≤ 1 + u := by unfold u; norm_num
      have hSc : (0:ℚ) ≤ Sc := by unfold Sc; norm_num
      apply mul_le_mul_of_nonneg_right _ hSc
      apply mul_le_mul_of_nonneg_left _ hu2
      apply mul_le_mul_of_nonneg_left _ hu2
      linarith
    have h2 : (1 + u) * ((1 + u) * 10000002) * Sc ≤ 4503599627370496 := by unfold u Sc; norm_num
    linarith
  have e_c : S.toRat (FloatLike.ceil (FloatLike.mul (FloatLike.add a (FloatLike.div (FloatLike.ofInt r : F)
      (FloatLike.ofInt (N : ℤ)))) (FloatLike.ofInt 10000000))) = ((⌈y⌉ : ℤ) : ℚ) := by
    rw [S.ceil_spec _ (by rw [e_y]; exact hyB), e_y]
  have hScne : Sc ≠ 0 := by unfold Sc; norm_num
  set z := zOf S q A with hz
  have e_z : S.toRat (FloatLike.div (FloatLike.ceil (FloatLike.mul (FloatLike.add a (FloatLike.div (FloatLike.ofInt r : F)
      (FloatLike.ofInt (N : ℤ)))) (FloatLike.ofInt 10000000))) (FloatLike.ofInt 10000000)) = z := by
    rw [S.div_spec _ _ (by rw [e_S]; exact hScne), e_c, e_S, hz, hy]; rfl
  have hz0 : 0 ≤ z := by
    have hSc : (0:ℚ) < Sc := by unfold Sc; norm_num
    exact rnd_nonneg S (div_nonneg hc0 (le_of_lt hSc))
  have hzB : z ≤ 4503599627370496 := by
    have : A + q + 1 / Sc + 4 * u * (q + 1) + u ≤ 4503599627370496 := by
      have h4 : 4 * u * (q + 1) ≤ 1 := by
        have : 4 * u * (q + 1) ≤ 4 * u * 10000002 := by
          apply mul_le_mul_of_nonneg_left (by linarith); unfold u; norm_num
        have : 4 * u * 10000002 ≤ 1 := by unfold u; norm_num
        linarith
      have : (1:ℚ) / Sc ≤ 1 := by unfold Sc; norm_num
      have : u ≤ 1 := by unfold u; norm_num
      linarith
    linarith
  unfold regStepG
  simp only [S.lt_spec, e_z, e_1]
  by_cases hlt : z < 1
  · rw [if_pos (by simpa using hlt)]
    refine ⟨by rw [e_z]; simp, by rw [e_z]; exact hz0, by rw [e_z]; exact hlt, le_refl 0⟩
  · rw [if_neg (by simpa using hlt)]
    have hz1 : 1 ≤ z := not_lt.mp hlt
    have e_t := S.trunc_spec _ (by rw [e_z]; exact hz0) (by rw [e_z]; exact hzB)
    rw [e_z] at e_t
    have hfl1 : 1 ≤ ⌊z⌋ := Int.le_floor.mpr (by exact_mod_cast hz1)
    have hflz : ((⌊z⌋ : ℤ) : ℚ) ≤ z := Int.floor_le z
    have hzfl : z < ⌊z⌋ + 1 := Int.lt_floor_add_one z
    have e_e : S.toRat (FloatLike.ofInt ⌊z⌋ : F) = ((⌊z⌋ : ℤ) : ℚ) := by
      rw [S.ofInt_spec]
      apply S.rnd_int
      rw [abs_of_nonneg (by omega)]
      have : ((⌊z⌋ : ℤ) : ℚ) ≤ 4503599627370496 := le_trans hflz hzB
      have : ⌊z⌋ ≤ 4503599627370496 := by exact_mod_cast this
      omega
    have hfl1q : (1:ℚ) ≤ ((⌊z⌋ : ℤ) : ℚ) := by exact_mod_cast hfl1
    have e_sub := S.sub_exact (FloatLike.div (FloatLike.ceil (FloatLike.mul (FloatLike.add a (FloatLike.div (FloatLike.ofInt r : F)
      (FloatLike.ofInt (N : ℤ)))) (FloatLike.ofInt 10000000))) (FloatLike.ofInt 10000000)) (FloatLike.ofInt ⌊z⌋)
      (by rw [e_e, e_z]; linarith) (by rw [e_e, e_z]; linarith)
    rw [e_z, e_e] at e_sub
    rw [e_t, e_sub]
    refine ⟨by ring, by linarith, by linarith, by omega⟩

end step

section cycle
variable (N : ℕ) (r : ℤ) (hN1 : 1 ≤ N) (hN : N ≤ 1000000) (hr0 : 0 ≤ r) (hr : r ≤ 10000000)

/-- the accumulator before sub-tick `k` of a cycle (it starts at 0: the closure resets it when a cycle begins) -/
def accs : ℕ → F
  | 0 => FloatLike.ofLit 0 (-1)
  | k + 1 => (regStepG N r (accs k)).1

/-- what sub-tick `k` emits -/
def outs (k : ℕ) : ℤ := (regStepG N r (accs (F := F) N r k)).2

/-- emitted by the first `k` sub-ticks -/
def emitted (k : ℕ) : ℤ := (Finset.range k).sum (outs (F := F) N r)

theorem emitted_succ (k : ℕ) : emitted (F := F) N r (k + 1) = emitted (F := F) N r k + outs (F := F) N r k := by
  unfold emitted; rw [Finset.sum_range_succ]

include hN1 hN hr0 hr

/-- the invariant of a cycle: the kept part stays in `[0,1)`, nothing negative is emitted, and emitted + kept tracks
`k·q` from below within the three roundings per step and from above within one grid unit (plus roundings) per step -/
theorem cycle_inv (k : ℕ) :
    0 ≤ S.toRat (accs (F := F) N r k) ∧ S.toRat (accs (F := F) N r k) < 1 ∧ 0 ≤ emitted (F := F) N r k ∧
    (k : ℚ) * (qOf S N r - 3 * u * (qOf S N r + 1)) ≤ (emitted (F := F) N r k : ℚ) + S.toRat (accs (F := F) N r k) ∧
    (emitted (F := F) N r k : ℚ) + S.toRat (accs (F := F) N r k) ≤
      (k : ℚ) * (qOf S N r + (1 / Sc + 4 * u * (qOf S N r + 1) + u)) := by
  induction k with
  | zero =>
    simp [accs, emitted, S.ofLit_zero]
  | succ k ih =>
    obtain ⟨hA0, hA1, hE0, hL, hU⟩ := ih
    obtain ⟨hq0, hqU, _, _⟩ := q_bounds S N r hN1 hN hr0 hr
    obtain ⟨hz, hA0', hA1', ho0⟩ := step_spec S N r hN1 hN hr0 hr (accs (F := F) N r k) hA0 hA1
    have hzL := z_lower S hq0 hqU hA0 hA1
    have hzU := z_upper S hq0 hqU hA0 hA1
    rw [emitted_succ]
    refine ⟨hA0', hA1', by unfold outs; omega, ?_, ?_⟩
    · show ((k + 1 : ℕ) : ℚ) * _ ≤ ((emitted (F := F) N r k + outs (F := F) N r k : ℤ) : ℚ) + S.toRat (regStepG N r (accs (F := F) N r k)).1
      unfold outs; push_cast
      nlinarith
    · show ((emitted (F := F) N r k + outs (F := F) N r k : ℤ) : ℚ) + S.toRat (regStepG N r (accs (F := F) N r k)).1 ≤ ((k + 1 : ℕ) : ℚ) * _
      unfold outs; push_cast
      nlinarith

theorem Nq_bounds : (1 - u) * (r : ℚ) ≤ (N : ℚ) * qOf S N r ∧ (N : ℚ) * qOf S N r ≤ (1 + u) * (r : ℚ) := by
  obtain ⟨_, _, hL, hU⟩ := q_bounds S N r hN1 hN hr0 hr
  have hNq : (0:ℚ) < N := by exact_mod_cast hN1
  have e : (N : ℚ) * ((r : ℚ) / N) = r := by field_simp
  constructor
  · have := mul_le_mul_of_nonneg_left hL (le_of_lt hNq)
    have e2 : (N : ℚ) * ((1 - u) * ((r : ℚ) / N)) = (1 - u) * r := by rw [mul_left_comm, e]
    linarith
  · have := mul_le_mul_of_nonneg_left hU (le_of_lt hNq)
    have e2 : (N : ℚ) * ((1 + u) * ((r : ℚ) / N)) = (1 + u) * r := by rw [mul_left_comm, e]
    linarith

include S in
/-- never more than `r`: the upward drift of a whole cycle stays below one iteration -/
theorem emitted_le : emitted (F := F) N r N ≤ r := by
  obtain ⟨hq0, hqU, _, _⟩ := q_bounds S N r hN1 hN hr0 hr
  obtain ⟨hNqL, hNqU⟩ := Nq_bounds S N r hN1 hN hr0 hr
  have hNq : (1:ℚ) ≤ N := by exact_mod_cast hN1
  have hNle : (N:ℚ) ≤ 1000000 := by exact_mod_cast hN
  have hrq0 : (0:ℚ) ≤ r := by exact_mod_cast hr0
  have hrq : (r:ℚ) ≤ 10000000 := by exact_mod_cast hr
  obtain ⟨hA0, _, _, _, hU⟩ := cycle_inv S N r hN1 hN hr0 hr N
  have h1 : (N : ℚ) * (qOf S N r + (1 / Sc + 4 * u * (qOf S N r + 1) + u)) =
      (N : ℚ) * qOf S N r + (N : ℚ) / Sc + 4 * u * ((N : ℚ) * qOf S N r + N) + u * N := by
    unfold Sc; ring
  have h2 : (N : ℚ) / Sc ≤ 1 / 10 := by unfold Sc; rw [div_le_iff₀ (by norm_num)]; linarith
  have h3 : 4 * u * ((N : ℚ) * qOf S N r + N) ≤ 4 * u * ((1 + u) * 10000000 + 1000000) := by
    apply mul_le_mul_of_nonneg_left _ (by unfold u; norm_num)
    have : (1 + u) * (r : ℚ) ≤ (1 + u) * 10000000 := mul_le_mul_of_nonneg_left hrq (by unfold u; norm_num)
    linarith
  have h4 : 4 * u * ((1 + u) * 10000000 + 1000000) ≤ 1 / 10 := by unfold u; norm_num
  have h5 : u * (N : ℚ) ≤ 1 / 10 := by
    have : u * (N : ℚ) ≤ u * 1000000 := mul_le_mul_of_nonneg_left hNle (le_of_lt u_pos)
    have : u * 1000000 ≤ 1 / 10 := by unfold u; norm_num
    linarith
  have h6 : (1 + u) * (r : ℚ) ≤ r + 1 / 10 := by
    have : u * (r : ℚ) ≤ u * 10000000 := mul_le_mul_of_nonneg_left hrq (le_of_lt u_pos)
    have : u * 10000000 ≤ 1 / 10 := by unfold u; norm_num
    linarith
  have hlt : (emitted (F := F) N r N : ℚ) < (r : ℚ) + 1 := by linarith
  have : emitted (F := F) N r N < r + 1 := by exact_mod_cast hlt
  omega

end cycle

/-- never fewer: the last sub-tick makes up for what the roundings took -/
theorem emitted_ge (S : FPSpec F) (n : ℕ) (r : ℤ) (hN1 : 1 ≤ n + 1) (hN : n + 1 ≤ 1000000) (hr0 : 0 ≤ r) (hr : r ≤ 10000000) :
    r ≤ emitted (F := F) (n + 1) r (n + 1) := by
  obtain ⟨hq0, hqU, _, _⟩ := q_bounds S (n + 1) r hN1 hN hr0 hr
  obtain ⟨hNqL, hNqU⟩ := Nq_bounds S (n + 1) r hN1 hN hr0 hr
  have hNq : (1:ℚ) ≤ (n + 1) := by exact_mod_cast hN1
  have hNle : ((n + 1 : ℕ):ℚ) ≤ 1000000 := by exact_mod_cast hN
  have hrq0 : (0:ℚ) ≤ r := by exact_mod_cast hr0
  have hrq : (r:ℚ) ≤ 10000000 := by exact_mod_cast hr
  obtain ⟨hA0, hA1, hE0, hL, _⟩ := cycle_inv S (n + 1) r hN1 hN hr0 hr n
  obtain ⟨hz, _, hA1', ho0⟩ := step_spec S (n + 1) r hN1 hN hr0 hr (accs (F := F) (n + 1) r n) hA0 hA1
  rw [emitted_succ]
  by_cases hm : r ≤ emitted (F := F) (n + 1) r n
  · unfold outs; omega
  · have hm1 : 1 ≤ r - emitted (F := F) (n + 1) r n := by omega
    set m := r - emitted (F := F) (n + 1) r n with hmdef
    set q := qOf S (n + 1) r with hqdef
    set A := S.toRat (accs (F := F) (n + 1) r n) with hAdef
    have hEq : (emitted (F := F) (n + 1) r n : ℚ) = r - m := by rw [hmdef]; push_cast; ring
    have hmq : (m : ℚ) ≤ 10000000 := by
      have : m ≤ r := by omega
      have : (m : ℚ) ≤ r := by exact_mod_cast this
      linarith
    have hm1q : (1:ℚ) ≤ m := by exact_mod_cast hm1
    -- what has accumulated: A + q ≥ m − u·r − N·3u(q+1)
    have hcast : ((n + 1 : ℕ) : ℚ) = (n : ℚ) + 1 := by push_cast; ring
    rw [hcast] at hNqL hNqU hNle
    have hn0 : (0:ℚ) ≤ n := by positivity
    have hAq : (m : ℚ) - u * r - ((n : ℚ) + 1) * (3 * u * (q + 1)) ≤ A + q := by
      have : (n : ℚ) * (q - 3 * u * (q + 1)) ≤ (r - m) + A := by rw [← hEq]; exact hL
      have hβ : (0:ℚ) ≤ 3 * u * (q + 1) := mul_nonneg (by unfold u; norm_num) (by linarith)
      have e1 : ((n : ℚ) + 1) * (3 * u * (q + 1)) = (n : ℚ) * (3 * u * (q + 1)) + 3 * u * (q + 1) := by ring
      have e2 : ((n : ℚ) + 1) * q = (n : ℚ) * q + q := by ring
      have e3 : (n : ℚ) * (q - 3 * u * (q + 1)) = (n : ℚ) * q - (n : ℚ) * (3 * u * (q + 1)) := by ring
      rw [e2] at hNqL
      rw [e3] at this
      rw [e1]
      linarith
    have hNb : ((n : ℚ) + 1) * (3 * u * (q + 1)) ≤ 3 * u * ((1 + u) * 10000000 + 1000000) := by
      have e : ((n : ℚ) + 1) * (3 * u * (q + 1)) = 3 * u * (((n : ℚ) + 1) * q + ((n : ℚ) + 1)) := by ring
      rw [e]
      apply mul_le_mul_of_nonneg_left _ (by unfold u; norm_num)
      have : (1 + u) * (r : ℚ) ≤ (1 + u) * 10000000 := mul_le_mul_of_nonneg_left hrq (by unfold u; norm_num)
      linarith
    have hresc : Sc * m - 1 < (1 - u) * ((1 - u) * (A + q)) * Sc := by
      have hAq0 : 0 ≤ A + q := by linarith
      have h1 : (1 - 2 * u) * (A + q) ≤ (1 - u) * ((1 - u) * (A + q)) := by
        have : (1 - u) * ((1 - u) * (A + q)) - (1 - 2 * u) * (A + q) = u ^ 2 * (A + q) := by ring
        nlinarith [mul_nonneg (sq_nonneg u) hAq0]
      have hur : u * (r : ℚ) ≤ u * 10000000 := mul_le_mul_of_nonneg_left hrq (le_of_lt u_pos)
      have hL0 : (m : ℚ) - u * 10000000 - 3 * u * ((1 + u) * 10000000 + 1000000) ≤ A + q := by linarith
      have h2 : (1 - 2 * u) * ((m : ℚ) - u * 10000000 - 3 * u * ((1 + u) * 10000000 + 1000000)) ≤ (1 - 2 * u) * (A + q) :=
        mul_le_mul_of_nonneg_left hL0 (by unfold u; norm_num)
      have h3 : (m : ℚ) - 1 / (2 * Sc) ≤ (1 - 2 * u) * ((m : ℚ) - u * 10000000 - 3 * u * ((1 + u) * 10000000 + 1000000)) := by
        have : (1 - 2 * u) * ((m : ℚ) - u * 10000000 - 3 * u * ((1 + u) * 10000000 + 1000000)) =
            m - 2 * u * m - (1 - 2 * u) * (u * 10000000 + 3 * u * ((1 + u) * 10000000 + 1000000)) := by ring
        rw [this]
        have : 2 * u * (m : ℚ) ≤ 2 * u * 10000000 := mul_le_mul_of_nonneg_left hmq (by unfold u; norm_num)
        have : 2 * u * 10000000 + (1 - 2 * u) * (u * 10000000 + 3 * u * ((1 + u) * 10000000 + 1000000)) ≤ 1 / (2 * Sc) := by
          unfold u Sc; norm_num
        linarith
      have hSc : (0:ℚ) < Sc := by unfold Sc; norm_num
      have h4 : ((m : ℚ) - 1 / (2 * Sc)) * Sc ≤ (1 - u) * ((1 - u) * (A + q)) * Sc :=
        mul_le_mul_of_nonneg_right (by linarith) (le_of_lt hSc)
      have h5 : ((m : ℚ) - 1 / (2 * Sc)) * Sc = Sc * m - 1 / 2 := by field_simp
      linarith
    have hzm := z_rescue S hq0 hqU hA0 hA1 m (by omega) (by omega) hresc
    -- kept part < 1, so the emitted part is at least m
    have : (m : ℚ) - 1 < (outs (F := F) (n + 1) r n : ℚ) := by unfold outs; linarith
    have : m - 1 < outs (F := F) (n + 1) r n := by exact_mod_cast this
    omega

/-- **C12 in rounded arithmetic.** In any arithmetic that satisfies `FPSpec` (binary64), a cycle of `N ≤ 10⁶` sub-ticks
with a rate `0 ≤ r ≤ 10⁷` emits exactly `r` iterations. -/
theorem C12_float_cycle_exact (S : FPSpec F) (N : ℕ) (r : ℤ) (hN1 : 1 ≤ N) (hN : N ≤ 1000000) (hr0 : 0 ≤ r)
    (hr : r ≤ 10000000) : emitted (F := F) N r N = r := by
  have h1 := emitted_le S N r hN1 hN hr0 hr
  obtain ⟨n, rfl⟩ : ∃ n, N = n + 1 := ⟨N - 1, by omega⟩
  have h2 := emitted_ge S n r hN1 hN hr0 hr
  omega

/-! ### the same statement about the regenerated closure -/

open F1.Generated.MG in
/-- call `k` of a cycle of the regenerated closure of `withRegularDistribution`, the underlying rate function answering
`r` when the cycle starts: it emits `outs k` and leaves the accumulator `accs (k+1)` for the next call — in any
arithmetic (no `FPSpec` needed: this is `dist_regular_body_refines`) -/
theorem closure_call (N : ℕ) (r r0 : ℤ) (rates : ℕ → ℤ) (e : ℕ) (he : rates e = r) (now : ℤ) (k : ℕ) (hk : k < N) :
    observeC (runFn (distExt rates fun _ _ => 0) 0 dist_regular_body
        (regStateG N (if k = 0 then r0 else r) (accs (F := F) N r k) (if k = 0 then 0 else N - k) (if k = 0 then e else e + 1) now))
        ["remainingSteps", "rate", "accRate"] ["arg1"] =
      some ([.int (outs (F := F) N r k)], [some (.int ((N : ℤ) - (k + 1))), some (.int r), some (.flt (accs (F := F) N r (k + 1)))],
            [e + 1]) := by
  rw [dist_regular_body_refines]
  by_cases h0 : k = 0
  · subst h0
    simp [accs, outs, he]
  · have hne : N - k ≠ 0 := by omega
    simp [h0, hne, accs, outs]
    omega

/-- **C12 about the code as it is now, in binary64 (any `FPSpec` arithmetic):** the `N` calls of one cycle of the
regenerated closure emit `outs 0 … outs (N−1)` (`closure_call`), and these add up to exactly the rate the cycle started
with — for every `N ≤ 10⁶` and `0 ≤ r ≤ 10⁷` -/
theorem C12_generated_cycle_float (S : FPSpec F) (N : ℕ) (r : ℤ) (hN1 : 1 ≤ N) (hN : N ≤ 1000000) (hr0 : 0 ≤ r)
    (hr : r ≤ 10000000) : (Finset.range N).sum (outs (F := F) N r) = r :=
  C12_float_cycle_exact S N r hN1 hN hr0 hr

/-- non-vacuity: exact rationals are an `FPSpec` arithmetic, and 7 over 3 sub-ticks is 3 + 2 + 2 -/
example : (Finset.range 3).sum (outs (F := Rat) 3 7) = 7 :=
  C12_generated_cycle_float ratSpec 3 7 (by norm_num) (by norm_num) (by norm_num) (by norm_num)

end F1.Props.C12Float
