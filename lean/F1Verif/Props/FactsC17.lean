/-
C17 — regenerated facts: the anchored functions still read as the model of C17 assumes.
`Generated.*` is rewritten from /repo's working tree on every run; `Expected.*` is what the model was written against.
-/
import F1Verif.Generated.Facts
import F1Verif.Expected
namespace F1.Props.FactsC17

-- (average_Add, average_Update, average_average, average_drain, active_Run, active_Setup: re-proved semantically on the regenerated MiniGo programs, see Props/Refine*.lean)

theorem fact_average_Snapshot : F1.Generated.skel_average_Snapshot = F1.Expected.skel_average_Snapshot := by rfl
theorem fact_average_CollectLifetime : F1.Generated.skel_average_CollectLifetime = F1.Expected.skel_average_CollectLifetime := by rfl
theorem fact_average_Record : F1.Generated.skel_average_Record = F1.Expected.skel_average_Record := by rfl
theorem fact_stats_Snapshot : F1.Generated.skel_stats_Snapshot = F1.Expected.skel_stats_Snapshot := by rfl
theorem fact_stats_Total : F1.Generated.skel_stats_Total = F1.Expected.skel_stats_Total := by rfl
theorem fact_stats_Record : F1.Generated.skel_stats_Record = F1.Expected.skel_stats_Record := by rfl
theorem fact_t_Time : F1.Generated.skel_t_Time = F1.Expected.skel_t_Time := by rfl
theorem fact_t_recordTime : F1.Generated.skel_t_recordTime = F1.Expected.skel_t_recordTime := by rfl

end F1.Props.FactsC17
