/-
C12 — distributing a rate over sub-ticks neither creates nor loses iterations.
Theorems about `F1.Dist` (exact-arithmetic regular distribution, random distribution).
-/
import F1Verif.Model.Distribution

namespace F1.Props.C12
open F1.Dist

/-! ### arithmetic of the per-step increment `⌈S·r/N⌉` -/

theorem ceilDiv_bounds (a b : Int) (hb : 0 < b) :
    a ≤ b * ceilDiv a b ∧ b * ceilDiv a b < a + b := by
  have h1 := Int.mul_ediv_add_emod (-a) b
  have h2 := Int.emod_nonneg (-a) (Int.ne_of_gt hb)
  have h3 := Int.emod_lt_of_pos (-a) hb
  unfold ceilDiv
  rw [Int.mul_neg]
  constructor <;> omega

theorem inc_nonneg (N : Nat) (hN : 0 < N) (r : Int) (hr : 0 ≤ r) : 0 ≤ inc N r := by
  have hb : (0 : Int) < (N : Int) := by exact_mod_cast hN
  have h := (ceilDiv_bounds ((scale : Int) * r) N hb).1
  have hs : (0 : Int) ≤ (scale : Int) * r := Int.mul_nonneg (by decide) hr
  unfold inc
  by_cases hc : 0 ≤ ceilDiv ((scale : Int) * r) N
  · exact hc
  · exfalso
    have : ceilDiv ((scale : Int) * r) N ≤ -1 := by omega
    have : (N : Int) * ceilDiv ((scale : Int) * r) N ≤ (N : Int) * (-1) :=
      Int.mul_le_mul_of_nonneg_left this (Int.le_of_lt hb)
    omega

/-! ### one step -/

structure StepInv (s : RegZ) : Prop where
  acc_nonneg : 0 ≤ s.acc
  acc_lt : s.acc < (scale : Int)
  rate_nonneg : 0 ≤ s.rate

theorem scale_lit : (scale : Int) = 10000000 := rfl

theorem advance_spec (N : Nat) (hN : 0 < N) (s : RegZ) (h : StepInv s) :
    let r := s.advance N
    (scale : Int) * r.2 + r.1.acc = s.acc + inc N s.rate ∧ StepInv r.1 ∧ 0 ≤ r.2 ∧
    r.1.rate = s.rate ∧ r.1.remaining = s.remaining - 1 ∧ r.1.evals = s.evals ∧
    inc N s.rate / (scale : Int) ≤ r.2 ∧ r.2 ≤ inc N s.rate / (scale : Int) + 1 := by
  have hi := inc_nonneg N hN s.rate h.rate_nonneg
  have ha0 := h.acc_nonneg
  have ha1 := h.acc_lt
  have hr := h.rate_nonneg
  unfold RegZ.advance
  simp only
  split <;> simp only [scale_lit] at * <;>
    refine ⟨?_, ⟨?_, ?_, hr⟩, ?_, ?_, ?_, ?_, ?_, ?_⟩ <;>
      first | trivial | rfl | omega | (simp only [scale_lit]; omega)

/-! ### the part of a cycle after the rate has been loaded -/

theorem reload_of_pos (N : Nat) (rates : Nat → Int) (s : RegZ) (h : s.remaining ≠ 0) :
    s.reload N rates = s := by
  unfold RegZ.reload; simp [h]

theorem run_mid (N : Nat) (hN : 0 < N) (rates : Nat → Int) :
    ∀ (R : Nat) (s : RegZ), s.remaining = R → StepInv s →
      let r := runZ N rates R s
      r.1.remaining = 0 ∧ r.1.evals = s.evals ∧ r.1.rate = s.rate ∧ r.2.length = R ∧
      (scale : Int) * r.2.sum + r.1.acc = s.acc + (R : Int) * inc N s.rate ∧ StepInv r.1 ∧
      (∀ o ∈ r.2, 0 ≤ o ∧ inc N s.rate / (scale : Int) ≤ o ∧ o ≤ inc N s.rate / (scale : Int) + 1) := by
  intro R
  induction R with
  | zero =>
    intro s hr hinv
    simp [runZ, hr, hinv]
  | succ R ih =>
    intro s hr hinv
    have hne : s.remaining ≠ 0 := by omega
    have hstep : regStepZ N rates s = s.advance N := by
      unfold regStepZ; rw [reload_of_pos N rates s hne]
    have hadv := advance_spec N hN s hinv
    simp only at hadv
    obtain ⟨h1, h2, h3, h4, h5, h6, h7, h8⟩ := hadv
    have hrem : (s.advance N).1.remaining = R := by omega
    have := ih (s.advance N).1 hrem h2
    simp only at this
    obtain ⟨i1, i2, i3, i4, i5, i6, i7⟩ := this
    simp only [runZ, hstep]
    refine ⟨i1, by omega, by rw [i3, h4], by simp [i4], ?_, i6, ?_⟩
    · rw [List.sum_cons, h4] at *
      have : ((R + 1 : Nat) : Int) = (R : Int) + 1 := by omega
      rw [this]
      have e1 : (scale : Int) * ((s.advance N).2 + (runZ N rates R (s.advance N).1).2.sum)
          = (scale : Int) * (s.advance N).2 + (scale : Int) * (runZ N rates R (s.advance N).1).2.sum :=
        Int.mul_add _ _ _
      have e2 : ((R : Int) + 1) * inc N s.rate = (R : Int) * inc N s.rate + inc N s.rate := by
        rw [Int.add_mul, Int.one_mul]
      omega
    · intro o ho
      rcases List.mem_cons.mp ho with rfl | ho
      · exact ⟨h3, h7, h8⟩
      · have := i7 o ho
        rw [h4] at this
        exact this

/-! ### a whole cycle -/

theorem runZ_reload (N : Nat) (rates : Nat → Int) (k : Nat) (s : RegZ) (hN : 0 < N) :
    runZ N rates (k + 1) s = runZ N rates (k + 1) (s.reload N rates) := by
  have : regStepZ N rates (s.reload N rates) = regStepZ N rates s := by
    unfold regStepZ
    by_cases h : s.remaining = 0
    · have h2 : (s.reload N rates).remaining ≠ 0 := by
        unfold RegZ.reload; simp [h]; omega
      rw [reload_of_pos N rates _ h2]
    · rw [reload_of_pos N rates s h, reload_of_pos N rates s h]
  simp only [runZ, this]

/-- One full cycle, from a state that is about to reload: the underlying rate is evaluated exactly
once, the `N` outputs are non-negative, differ by at most one, and their sum is
`⌊N·⌈S·r/N⌉ / S⌋`. -/
theorem cycle (N : Nat) (hN : 0 < N) (rates : Nat → Int) (s : RegZ)
    (h0 : s.remaining = 0) (hr : 0 ≤ rates s.evals) :
    let r := runZ N rates N s
    r.1.remaining = 0 ∧ r.1.evals = s.evals + 1 ∧ r.2.length = N ∧
    r.2.sum = ((N : Int) * inc N (rates s.evals)) / (scale : Int) ∧
    (∀ o ∈ r.2, 0 ≤ o) ∧
    (∀ o₁ ∈ r.2, ∀ o₂ ∈ r.2, o₁ - o₂ ≤ 1) := by
  obtain ⟨k, rfl⟩ : ∃ k, N = k + 1 := ⟨N - 1, by omega⟩
  rw [runZ_reload _ _ _ _ hN]
  have hrl : s.reload (k + 1) rates = ⟨rates s.evals, 0, k + 1, s.evals + 1⟩ := by
    unfold RegZ.reload; simp [h0]
  rw [hrl]
  have hinv : StepInv (⟨rates s.evals, 0, k + 1, s.evals + 1⟩ : RegZ) := ⟨by simp, by show (0:Int) < (scale:Int); decide, hr⟩
  have := run_mid (k + 1) hN rates (k + 1) ⟨rates s.evals, 0, k + 1, s.evals + 1⟩ rfl hinv
  simp only at this
  obtain ⟨i1, i2, i3, i4, i5, i6, i7⟩ := this
  have hS : (0 : Int) < (scale : Int) := by decide
  refine ⟨i1, i2, i4, ?_, fun o ho => (i7 o ho).1, ?_⟩
  · have := (Int.ediv_emod_unique (a := ((k + 1 : Nat) : Int) * inc (k + 1) (rates s.evals))
      (r := (runZ (k + 1) rates (k + 1) ⟨rates s.evals, 0, k + 1, s.evals + 1⟩).1.acc)
      (q := (runZ (k + 1) rates (k + 1) ⟨rates s.evals, 0, k + 1, s.evals + 1⟩).2.sum) hS).mpr
      ⟨by omega, i6.acc_nonneg, i6.acc_lt⟩
    exact this.1.symm
  · intro o₁ h₁ o₂ h₂
    have a := i7 o₁ h₁
    have b := i7 o₂ h₂
    omega

/-- C12 (regular, sum): whenever the rounding-up of the per-step share cannot add up to a whole
iteration over the cycle — `N·(⌈S·r/N⌉/S − r/N) < 1`, written without division — the cycle
delivers exactly `r`. -/
theorem C12_regular_sum (N : Nat) (hN : 0 < N) (rates : Nat → Int) (s : RegZ)
    (h0 : s.remaining = 0) (hr : 0 ≤ rates s.evals)
    (henv : (N : Int) * inc N (rates s.evals) < (scale : Int) * (rates s.evals + 1)) :
    (runZ N rates N s).2.sum = rates s.evals := by
  have hc := (cycle N hN rates s h0 hr).2.2.2.1
  rw [hc]
  have hb : (0 : Int) < (N : Int) := by exact_mod_cast hN
  have hlo := (ceilDiv_bounds ((scale : Int) * rates s.evals) N hb).1
  have hS : (0 : Int) < (scale : Int) := by decide
  have := (Int.ediv_emod_unique (a := (N : Int) * inc N (rates s.evals))
      (r := (N : Int) * inc N (rates s.evals) - (scale : Int) * rates s.evals)
      (q := rates s.evals) hS).mpr ⟨by omega, by unfold inc; omega, by
        rw [Int.mul_add, Int.mul_one] at henv; omega⟩
  exact this.1

/-- the envelope in which the hypothesis of `C12_regular_sum` always holds: cycles of at most
`S = 10^7` sub-ticks (tick intervals up to 11.5 days). -/
theorem C12_regular_sum_envelope (N : Nat) (hN : 0 < N) (hNS : N ≤ scale) (rates : Nat → Int)
    (s : RegZ) (h0 : s.remaining = 0) (hr : 0 ≤ rates s.evals) :
    (runZ N rates N s).2.sum = rates s.evals := by
  apply C12_regular_sum N hN rates s h0 hr
  have hb : (0 : Int) < (N : Int) := by exact_mod_cast hN
  have hhi := (ceilDiv_bounds ((scale : Int) * rates s.evals) N hb).2
  have : (N : Int) ≤ (scale : Int) := by exact_mod_cast hNS
  rw [Int.mul_add, Int.mul_one]
  unfold inc
  omega

theorem C12_regular_even (N : Nat) (hN : 0 < N) (rates : Nat → Int) (s : RegZ)
    (h0 : s.remaining = 0) (hr : 0 ≤ rates s.evals) :
    ∀ o₁ ∈ (runZ N rates N s).2, ∀ o₂ ∈ (runZ N rates N s).2, o₁ - o₂ ≤ 1 :=
  (cycle N hN rates s h0 hr).2.2.2.2.2

theorem C12_regular_nonneg (N : Nat) (hN : 0 < N) (rates : Nat → Int) (s : RegZ)
    (h0 : s.remaining = 0) (hr : 0 ≤ rates s.evals) :
    ∀ o ∈ (runZ N rates N s).2, 0 ≤ o :=
  (cycle N hN rates s h0 hr).2.2.2.2.1

theorem C12_regular_once_per_cycle (N : Nat) (hN : 0 < N) (rates : Nat → Int) (s : RegZ)
    (h0 : s.remaining = 0) (hr : 0 ≤ rates s.evals) :
    (runZ N rates N s).1.evals = s.evals + 1 ∧ (runZ N rates N s).1.remaining = 0 :=
  ⟨(cycle N hN rates s h0 hr).2.1, (cycle N hN rates s h0 hr).1⟩

/-! ### any number of consecutive cycles, time-varying rates -/

theorem runZ_add (N : Nat) (rates : Nat → Int) (a b : Nat) (s : RegZ) :
    runZ N rates (a + b) s =
      ((runZ N rates b (runZ N rates a s).1).1, (runZ N rates a s).2 ++ (runZ N rates b (runZ N rates a s).1).2) := by
  induction a generalizing s with
  | zero => simp [runZ]
  | succ a ih =>
    have : a + 1 + b = (a + b) + 1 := by omega
    rw [this]
    simp only [runZ, ih, List.cons_append]

/-- C12 (regular), all cycles: starting from the initial state, after `c` complete cycles the
underlying rate has been evaluated exactly `c` times, and the `i`-th block of `N` outputs sums
to the `i`-th value of the rate, for every non-negative rate sequence inside the envelope. -/
theorem C12_regular_all_cycles (N : Nat) (hN : 0 < N) (hNS : N ≤ scale) (rates : Nat → Int)
    (hr : ∀ i, 0 ≤ rates i) :
    ∀ (c : Nat) (s : RegZ), s.remaining = 0 →
      (runZ N rates (c * N) s).1.remaining = 0 ∧ (runZ N rates (c * N) s).1.evals = s.evals + c ∧
      (runZ N rates (c * N) s).2.length = c * N ∧
      ∀ i, i < c → (((runZ N rates (c * N) s).2.drop (i * N)).take N).sum = rates (s.evals + i) := by
  intro c
  induction c with
  | zero => intro s h0; simp [runZ, h0]
  | succ c ih =>
    intro s h0
    obtain ⟨j1, j2, j3, j4⟩ := ih s h0
    have hcyc := cycle N hN rates (runZ N rates (c * N) s).1 j1 (hr _)
    simp only at hcyc
    obtain ⟨k1, k2, k3, _, _, _⟩ := hcyc
    have hsum := C12_regular_sum_envelope N hN hNS rates (runZ N rates (c * N) s).1 j1 (hr _)
    have hsplit : (c + 1) * N = c * N + N := by rw [Nat.add_mul, Nat.one_mul]
    rw [hsplit, runZ_add]
    simp only
    refine ⟨k1, by omega, by simp [j3, k3], ?_⟩
    intro i hi
    by_cases hic : i < c
    · have hle : i * N + N ≤ (runZ N rates (c * N) s).2.length := by
        rw [j3]
        have : (i + 1) * N ≤ c * N := Nat.mul_le_mul_right N hic
        rw [Nat.add_mul, Nat.one_mul] at this
        exact this
      rw [List.drop_append_of_le_length (by omega), List.take_append_of_le_length (by
        rw [List.length_drop]; omega)]
      exact j4 i hic
    · have hic' : i = c := by omega
      subst hic'
      rw [List.drop_append_of_le_length (by omega), List.drop_eq_nil_of_le (by omega), List.nil_append,
        List.take_of_length_le (by omega), hsum, j2]

/-- Beyond the envelope the statement is false of the exact model (and of the code): rate 1
over a cycle of 2·10^7 sub-ticks delivers 2. -/
theorem C12_regular_beyond :
    ∃ (N : Nat) (r : Int), 0 < N ∧ 0 ≤ r ∧ ((N : Int) * inc N r) / (scale : Int) ≠ r :=
  ⟨20000000, 1, by decide, by decide, by decide⟩

/-! ### random distribution -/

structure RndInv (r : Int) (emitted : Int) (s : Rnd) : Prop where
  rem_nonneg : 0 ≤ s.remRate
  conserve : s.remRate + emitted = r

theorem rnd_mid (N : Nat) (rates : Nat → Int) (rand : Nat → Int → Int)
    (hrand : ∀ d a, 0 ≤ rand d a) (r : Int) :
    ∀ (R : Nat) (s : Rnd) (e : Int), s.remaining = R → RndInv r e s →
      let x := runRnd N rates rand R s
      x.1.remaining = 0 ∧ x.1.evals = s.evals ∧ x.2.length = R ∧ (∀ o ∈ x.2, 0 ≤ o) ∧
      RndInv r (e + x.2.sum) x.1 ∧ (0 < R → x.1.remRate = 0) := by
  intro R
  induction R with
  | zero => intro s e hr hinv; simp [runRnd, hr, hinv]
  | succ R ih =>
    intro s e hr hinv
    have hne : s.remaining ≠ 0 := by omega
    have h0 := hinv.rem_nonneg
    have hc := hinv.conserve
    -- one step
    have hstep : ∃ cur, 0 ≤ cur ∧ cur ≤ s.remRate ∧ (s.remaining = 1 → cur = s.remRate) ∧
        (rndStep N rates rand s).1.remRate = s.remRate - cur ∧
        (rndStep N rates rand s).1.remaining = s.remaining - 1 ∧
        (rndStep N rates rand s).1.evals = s.evals ∧ (rndStep N rates rand s).2 = cur := by
      unfold rndStep
      simp only [hne, if_false]
      by_cases h1 : s.remaining = 1 ∨ s.remRate ≤ 0
      · refine ⟨s.remRate, h0, Int.le_refl _, fun _ => rfl, ?_⟩
        simp only [h1, if_true]
        refine ⟨by first | trivial | rfl, by first | trivial | rfl, by first | trivial | rfl, ?_⟩
        split
        · omega
        · rfl
      · have hr0 := hrand s.draws s.remRate
        simp only [h1, if_false]
        by_cases h2 : rand s.draws s.remRate > s.remRate
        · refine ⟨s.remRate, h0, Int.le_refl _, fun _ => rfl, ?_⟩
          simp only [h2, if_true]
          refine ⟨by first | trivial | rfl, by first | trivial | rfl, by first | trivial | rfl, ?_⟩
          split
          · omega
          · rfl
        · refine ⟨rand s.draws s.remRate, hr0, by omega, fun h => absurd (Or.inl h) h1, ?_⟩
          simp only [h2, if_false]
          refine ⟨by first | trivial | rfl, by first | trivial | rfl, by first | trivial | rfl, ?_⟩
          split
          · omega
          · rfl
    obtain ⟨cur, c0, c1, clast, s1, s2, s3, s4⟩ := hstep
    have hinv' : RndInv r (e + cur) (rndStep N rates rand s).1 := ⟨by omega, by omega⟩
    have := ih (rndStep N rates rand s).1 (e + cur) (by omega) hinv'
    simp only at this
    obtain ⟨i1, i2, i3, i4, i5, i6⟩ := this
    simp only [runRnd]
    refine ⟨i1, by omega, by simp [i3], ?_, ?_, ?_⟩
    · intro o ho
      rcases List.mem_cons.mp ho with rfl | ho
      · omega
      · exact i4 o ho
    · rw [List.sum_cons, s4]
      have : e + (cur + (runRnd N rates rand R (rndStep N rates rand s).1).2.sum)
          = e + cur + (runRnd N rates rand R (rndStep N rates rand s).1).2.sum := by omega
      rw [this]; exact i5
    · intro _
      by_cases hR : 0 < R
      · exact i6 hR
      · have hR0 : R = 0 := by omega
        subst hR0
        simp only [runRnd]
        have : s.remaining = 1 := by omega
        rw [s1, clast this]; omega

/-- C12 (random): for every random source with non-negative outputs (inside or beyond the
requested range), a cycle's outputs are non-negative, sum exactly to the cycle's rate, and the
underlying rate is evaluated exactly once. -/
theorem C12_random_cycle (N : Nat) (hN : 0 < N) (rates : Nat → Int) (rand : Nat → Int → Int)
    (hrand : ∀ d a, 0 ≤ rand d a) (s : Rnd) (h0 : s.remaining = 0) (hr : 0 ≤ rates s.evals) :
    let x := runRnd N rates rand N s
    x.1.remaining = 0 ∧ x.1.evals = s.evals + 1 ∧ x.2.length = N ∧ (∀ o ∈ x.2, 0 ≤ o) ∧
    x.2.sum = rates s.evals := by
  obtain ⟨k, rfl⟩ : ∃ k, N = k + 1 := ⟨N - 1, by omega⟩
  -- the first step reloads; afterwards `remaining = k`
  have hfirst : rndStep (k + 1) rates rand s =
      rndStep (k + 1) rates rand { s with remRate := rates s.evals, remaining := k + 1, evals := s.evals + 1 } := by
    unfold rndStep; simp [h0]
  have hrun : runRnd (k + 1) rates rand (k + 1) s =
      runRnd (k + 1) rates rand (k + 1) { s with remRate := rates s.evals, remaining := k + 1, evals := s.evals + 1 } := by
    simp only [runRnd, hfirst]
  rw [hrun]
  have hinv : RndInv (rates s.evals) 0
      ({ s with remRate := rates s.evals, remaining := k + 1, evals := s.evals + 1 } : Rnd) :=
    ⟨hr, by simp⟩
  have := rnd_mid (k + 1) rates rand hrand (rates s.evals) (k + 1) _ 0 rfl hinv
  simp only at this
  obtain ⟨i1, i2, i3, i4, i5, i6⟩ := this
  refine ⟨i1, i2, i3, i4, ?_⟩
  have h1 := i5.conserve
  have h2 := i6 (by omega)
  omega

/-! ### pass-through -/

theorem C12_passthrough (k : Kind) (intervalNs : Int) :
    passthrough k intervalNs = true ↔ (k = .none ∨ intervalNs ≤ subTickNs) := by
  unfold passthrough; cases k <;> simp

/-! ### non-vacuity: concrete runs -/

-- 7 over 9 sub-ticks, then 3 over 9: sums 7 and 3
example : (runZ 9 (fun i => if i = 0 then 7 else 3) 18 RegZ.init).2 =
    [0, 1, 1, 1, 0, 1, 1, 1, 1, 0, 0, 1, 0, 0, 1, 0, 0, 1] := by decide
example : (runRnd 4 (fun _ => 10) (fun d _ => [3, 50, 0].getD d 0) 4 Rnd.init).2 = [3, 7, 0, 0] := by decide

end F1.Props.C12
