/-
C04 — never more than `concurrency` iterations in flight; all workers usable.
-/
import F1Verif.Props.Pool
namespace F1.Props.C04
open F1.TriggerPool F1.Props.Pool

/-- C04 (bound): at no instant are more than `W` iterations executing -/
theorem C04_bound (W N : Nat) (evs : List Ev) (s : State) (h : run false (init W N) evs = some s) :
    s.w6 ≤ W := by
  have := (reachable_init W N evs s h).1.total
  unfold workersTotal at this; omega

/-- the pool consists of exactly `W` workers at all times (each owns one handle; a worker is at one
program point at a time, so no handle is used by two executing iterations) -/
theorem C04_workers_constant (W N : Nat) (evs : List Ev) (s : State) (h : run false (init W N) evs = some s) :
    workersTotal s = W :=
  (reachable_init W N evs s h).1.total

/-- C04 (no stuck idle worker): a worker sleeps on the condition variable only while nothing is
pending and the pool is not stopping, or while the broadcast that wakes it is already owed by a
thread that holds — or is about to take — the lock. No wake-up is ever lost. -/
theorem C04_no_lost_wakeup (W N : Nat) (evs : List Ev) (s : State) (h : run false (init W N) evs = some s)
    (hs : s.sleeping > 0) : (s.num ≤ 0 ∧ s.stop = false) ∨ Owed s :=
  (reachable_init W N evs s h).2.noLost hs

/-- a sleeper that is owed a broadcast gets it: the owing thread can always take its next step or
is only waiting for the lock, which its holder releases without waiting for anybody -/
theorem C04_broadcast_delivered (s : State) (h : s.tpc = .swapped) :
    ∃ s', step false s .tickBroadcast = some s' ∧ s'.sleeping = 0 ∧ s'.woken = s.woken + s.sleeping := by
  simp [step, h]

/-- C04 (all usable): with pending requests an idle worker that is awake can always take one, and
with `W` pending requests `W` idle workers lead to `W` iterations in flight. -/
theorem C04_take_enabled (s : State) (hw : s.w4 > 0) (hn : s.num ≥ 1) :
    ∃ s', step false s .wTake = some s' ∧ s'.w5 = s.w5 + 1 ∧ s'.num = s.num - 1 := by
  have h1 : (1 : Int) ≤ s.num := by omega
  simp [step, hw, h1]

/-- all `W` workers executing at once is reachable (4 workers, one tick of 4) -/
theorem C04_all_usable_witness :
    ∃ s, run false (init 4 0) ([.wToTest, .wToTest, .wToTest, .wToTest, .wTestEmpty, .wTestEmpty, .wTestEmpty, .wTestEmpty,
      .wLock, .wWaitOrLeave, .wLock, .wWaitOrLeave, .wLock, .wWaitOrLeave, .wLock, .wWaitOrLeave,
      .tickCheck 4, .tickLock, .tickSwap, .tickBroadcast, .tickUnlock, .tickReport,
      .wWake, .wWaitOrLeave, .wWake, .wWaitOrLeave, .wWake, .wWaitOrLeave, .wWake, .wWaitOrLeave,
      .wTake, .wTake, .wTake, .wTake, .wNext, .wNext, .wNext, .wNext]) = some s ∧ s.w6 = 4 ∧ s.sleeping = 0 :=
  ⟨_, rfl, by decide⟩

/-- the pool lock is held by at most one thread: a worker inside the critical section excludes the
ticker and the stopper, and vice versa -/
theorem C04_lock_exclusive (W N : Nat) (evs : List Ev) (s : State) (h : run false (init W N) evs = some s) :
    s.w3b ≤ 1 ∧ (s.w3b = 1 → s.lock = .worker) := by
  obtain ⟨l1, l2⟩ := (reachable_init W N evs s h).2.lockW
  by_cases hl : s.lock = .worker
  · exact ⟨by rw [l1 hl]; omega, fun _ => hl⟩
  · exact ⟨by rw [l2 hl]; omega, fun h1 => by rw [l2 hl] at h1; cases h1⟩

end F1.Props.C04
