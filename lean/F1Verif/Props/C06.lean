/-
C06 — lifecycle: setup once, iterations, LIFO cleanups exactly once, teardown last.
Statements about `F1.Handle` (the proofs are in Props/Handle.lean).
-/
import F1Verif.Props.Handle
namespace F1.Props.C06
open F1.Handle F1.Props.Handle

/-- cleanups registered during an iteration's body run exactly once each, in reverse registration
order — also when the body fails or panics, and whatever the cleanups themselves do -/
theorem C06_iter_cleanups (cl : Nat → Prog) (bodies : List Prog) (iter : Nat) (t : T) (l : List Ev) :
    cleanupIds (runIter cl bodies iter t l).2.1 = cleanupIds l ++ (compsRegistered bodies).reverse :=
  Handle.C06_iter_cleanups cl bodies iter t l

/-- … after that body and before the same worker starts another iteration -/
theorem C06_before_next (cl : Nat → Prog) (bodies : List Prog) (iter : Nat) (t : T) (l : List Ev) :
    ∃ bodySeg tdSeg, (runIter cl bodies iter t l).2.1 = l ++ bodySeg ++ tdSeg ++ [Ev.ran iter] ∧
      cleanupIds bodySeg = [] ∧ tdSeg.filter isBodyEv = [] :=
  Handle.C06_before_next cl bodies iter t l

/-- a panicking / failing cleanup does not prevent the remaining ones: the list of cleanups run by
a teardown is the whole stack, reversed, for any cleanup programs -/
theorem C06_cleanup_panic_contained (cl : Nat → Prog) (t : T) (l : List Ev) :
    cleanupIds (teardown cl t l).2 = cleanupIds l ++ t.stack.reverse :=
  (teardown_spec cl t l).1

/-- setup runs first and exactly once per component (the setup events are `0,1,…` in order, up to
and including the first component whose setup stops) -/
theorem C06_setup_once_first (sc : Scenario) :
    (execComps Ev.setup sc.setups 0 {} []).2.1.filterMap setupIdx = ranIdx sc.setups 0 := by
  have := execComps_order Ev.setup setupIdx (fun _ => rfl) (fun _ => rfl) sc.setups 0 {} []
  simpa using this

/-- if setup fails or panics no iteration ever runs and the run is reported failed -/
theorem C06_setup_failure (sc : Scenario) (iters : Nat) (h : compsMark sc.setups = true) :
    (runAll sc iters).setupFailed = true ∧ (runAll sc iters).outcomes = [] ∧
    (runAll sc iters).log.filter isBodyEv = [] :=
  Handle.C06_setup_failure sc iters h

/-- cleanups registered during setup run exactly once, in reverse order, after every iteration and
before the run returns; a failure inside them is reported (teardown failed ⇒ the run fails) -/
theorem C06_teardown_last (sc : Scenario) (iters : Nat) :
    ∃ before after, (runAll sc iters).log = before ++ [Ev.teardown] ++ after ∧
      cleanupIds after = (compsRegistered sc.setups).reverse ∧ after.filter isBodyEv = [] ∧
      (runAll sc iters).teardownFailed =
        (compsRegistered sc.setups).reverse.any fun c => marksFailure (sc.cleanups c) :=
  Handle.C06_teardown_last sc iters

-- non-vacuity: a body that registers three cleanups, the second of which panics, then fails hard
example : cleanupIds (runIter (fun c => if c = 2 then [.panic .rt] else [.log c])
    [[.reg 1, .reg 2, .reg 3, .failNow, .reg 4]] 1 {} []).2.1 = [3, 2, 1] := by decide

end F1.Props.C06
