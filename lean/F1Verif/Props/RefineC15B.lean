/- C15 — the bridge between the two readings of the stage loop: what the regenerated `ParseConfigFile` computes
(`keptPure` / `cumTotal`, Props/RefineC15P.lean) is what the specification of Props/C15.lean says (`keptSpec` /
`totalSpec`) when the oracle of the loop is read off a list of stage sections: the k-th validated stage lasts the k-th
section's own duration or else the default section's. -/
import F1Verif.Props.RefineC15P
import F1Verif.Props.C15

namespace F1.Props.Refine
open F1.MiniGo F1.Plan

section bridge
variable {F : Type} [FloatLike F]

theorem keepStage_eq (start : Option Int) (now total : Int) :
    Refine.keepStage start now total = F1.Plan.keepStage start now total := by
  cases start <;> rfl

/-- the durations of the stages the regenerated loop keeps are those of the specification, in file order; the total is
the sum over all sections -/
theorem keptPure_keptSpec (d : StageCfg) (O : PlanOracle F) (now : Int) :
    ∀ (l : List StageCfg) (i : Int) (nv : Nat) (t : Int),
      (∀ k, (h : k < l.length) → O.durOf (O.vOf (nv + k)) = (F1.Props.C15.durOf d l[k]).getD 0) →
      (keptPure O now l.length i nv t).map (fun p => O.durOf (O.vOf p.2)) =
        (F1.Props.C15.keptSpec d O.start now l t).map (·.2) ∧
      cumTotal O l.length nv t = t + F1.Props.C15.totalSpec d l
  | [], _, _, _, _ => by simp [keptPure, cumTotal, F1.Props.C15.keptSpec, F1.Props.C15.totalSpec]
  | s :: rest, i, nv, t, h => by
    have h0 := h 0 (by simp)
    simp at h0
    have ih := keptPure_keptSpec d O now rest (i + 1) (nv + 1) (t + O.durOf (O.vOf nv)) (by
      intro k hk
      have := h (k + 1) (by simp; omega)
      simpa [Nat.add_assoc, Nat.add_comm 1 k] using this)
    obtain ⟨ih1, ih2⟩ := ih
    have hx : (F1.Props.C15.durOf d s).getD 0 = O.durOf (O.vOf nv) := h0.symm
    constructor
    · simp only [List.length_cons, keptPure, F1.Props.C15.keptSpec, hx, keepStage_eq]
      by_cases hc : F1.Plan.keepStage O.start now (t + O.durOf (O.vOf nv)) = true
      · simp only [hc, if_true, List.map_append, List.map_cons, List.map_nil, ih1]
        simp
      · simp only [hc, Bool.false_eq_true, if_false, List.map_append, List.map_nil, ih1]
        simp
    · simp only [List.length_cons, cumTotal]
      rw [ih2]
      simp [F1.Props.C15.totalSpec, hx]
      omega

end bridge
end F1.Props.Refine
