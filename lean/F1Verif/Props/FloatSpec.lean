/-
An abstract specification of binary64 arithmetic, as far as the regular distribution uses it (level 2 of DESIGN.md §3).

`FPSpec F` says of a `FloatLike F`: every value denotes a rational (`toRat`; the programs in question never produce an
infinity or a NaN inside the stated envelope), and each operation returns the *rounding* `rnd` of the exact result, where
`rnd` is monotone, has relative error at most `u = 2⁻⁵³`, is exact on integers up to 2⁵³, and subtraction of two values
within a factor 2 of each other is exact (Sterbenz). `ceil` and the conversion to `int` are exact below 2⁵².

These are the facts of IEEE 754 round-to-nearest binary64 that the proof of `Props/C12Float.lean` uses — as *hypotheses*.
They are satisfiable: exact rational arithmetic is an instance (`ratSpec`), so nothing vacuous is proved. That Go's
`float64` (and Lean's `Float`, which the driver compares with Go bit for bit on every run) is an instance is the IEEE 754
conformance of the hardware: it is in the trusted base, it is not proved here (Lean's `Float` is opaque to the kernel).
-/
import F1Verif.Model.MiniGo
import Mathlib.Data.Rat.Floor
import Mathlib.Algebra.Order.Floor.Ring
import Mathlib.Algebra.Order.AbsoluteValue.Basic
import Mathlib.Tactic.Linarith
import Mathlib.Tactic.Ring
import Mathlib.Tactic.Positivity
import Mathlib.Tactic.FieldSimp

namespace F1.FloatSpec
open F1.MiniGo

/-- unit roundoff of binary64 -/
def u : ℚ := 1 / 9007199254740992        -- 2⁻⁵³

theorem u_pos : 0 < u := by unfold u; norm_num
theorem u_small : u ≤ 1 / 9007199254740992 := le_refl _

structure FPSpec (F : Type) [FloatLike F] where
  toRat : F → ℚ
  rnd : ℚ → ℚ
  rnd_mono : ∀ x y, x ≤ y → rnd x ≤ rnd y
  rnd_err : ∀ x, |rnd x - x| ≤ u * |x|
  rnd_int : ∀ i : ℤ, |i| ≤ 9007199254740992 → rnd i = i
  ofInt_spec : ∀ i : ℤ, toRat (FloatLike.ofInt i : F) = rnd i
  ofLit_zero : toRat (FloatLike.ofLit 0 (-1) : F) = 0
  add_spec : ∀ a b : F, toRat (FloatLike.add a b) = rnd (toRat a + toRat b)
  mul_spec : ∀ a b : F, toRat (FloatLike.mul a b) = rnd (toRat a * toRat b)
  div_spec : ∀ a b : F, toRat b ≠ 0 → toRat (FloatLike.div a b) = rnd (toRat a / toRat b)
  /-- Sterbenz: `a − b` is exact when `b/2 ≤ a ≤ 2b` -/
  sub_exact : ∀ a b : F, toRat b / 2 ≤ toRat a → toRat a ≤ 2 * toRat b → toRat (FloatLike.sub a b) = toRat a - toRat b
  ceil_spec : ∀ a : F, |toRat a| ≤ 4503599627370496 → toRat (FloatLike.ceil a) = ⌈toRat a⌉
  trunc_spec : ∀ a : F, 0 ≤ toRat a → toRat a ≤ 4503599627370496 → FloatLike.trunc a = ⌊toRat a⌋
  lt_spec : ∀ a b : F, FloatLike.lt a b = decide (toRat a < toRat b)
  sub_spec : ∀ a b : F, toRat (FloatLike.sub a b) = rnd (toRat a - toRat b)
  /-- `math.Round` (half away from zero) is exact below 2⁵² -/
  round_spec : ∀ a : F, |toRat a| ≤ 4503599627370496 → toRat (FloatLike.round a) = ((ratRound (toRat a) : ℤ) : ℚ)
  max_spec : ∀ a b : F, toRat (FloatLike.max a b) = max (toRat a) (toRat b)

/-- exact rational arithmetic satisfies the specification (rounding is the identity) -/
def ratSpec : FPSpec Rat where
  toRat := id
  rnd := id
  rnd_mono := fun _ _ h => h
  rnd_err := fun x => by simp; exact mul_nonneg (le_of_lt u_pos) (abs_nonneg x)
  rnd_int := fun _ _ => rfl
  ofInt_spec := fun _ => rfl
  ofLit_zero := by
    show (if (-1 : ℤ) ≥ 0 then (((0 * 10 ^ (-1 : ℤ).toNat : ℕ)) : ℚ) else ((0 : ℕ) : ℚ) / (((10 ^ (-(-1 : ℤ)).toNat : ℕ)) : ℚ)) = 0
    norm_num
  add_spec := fun _ _ => rfl
  mul_spec := fun _ _ => rfl
  div_spec := fun _ _ _ => rfl
  sub_exact := fun _ _ _ _ => rfl
  ceil_spec := fun a _ => by
    show (((-((-a).floor) : ℤ)) : ℚ) = ((⌈a⌉ : ℤ) : ℚ)
    have : (-a).floor = ⌊-a⌋ := rfl
    rw [this, Int.floor_neg]; simp
  trunc_spec := fun a h _ => by
    show (if a ≥ 0 then a.floor else -((-a).floor)) = ⌊a⌋
    have h' : a ≥ 0 := h
    rw [if_pos h']; rfl
  lt_spec := fun _ _ => rfl
  sub_spec := fun _ _ => rfl
  round_spec := fun _ _ => rfl
  max_spec := fun a b => by
    show (if a < b then b else a) = max a b
    rcases lt_or_ge a b with h | h
    · rw [if_pos h, max_eq_right (le_of_lt h)]
    · rw [if_neg (not_lt.mpr h), max_eq_left h]

variable {F : Type} [FloatLike F] (S : FPSpec F)

theorem rnd_zero : S.rnd 0 = 0 := by
  have := S.rnd_int 0 (by norm_num)
  simpa using this

theorem rnd_nonneg {x : ℚ} (h : 0 ≤ x) : 0 ≤ S.rnd x := by
  have := S.rnd_mono 0 x h
  rwa [rnd_zero] at this

theorem rnd_lower {x : ℚ} (h : 0 ≤ x) : (1 - u) * x ≤ S.rnd x := by
  have := S.rnd_err x
  rw [abs_of_nonneg h, abs_le] at this
  linarith [this.1]

theorem rnd_upper {x : ℚ} (h : 0 ≤ x) : S.rnd x ≤ (1 + u) * x := by
  have := S.rnd_err x
  rw [abs_of_nonneg h, abs_le] at this
  linarith [this.2]

theorem rnd_nat (n : ℕ) (h : n ≤ 9007199254740992) : S.rnd (n : ℚ) = n := by
  have := S.rnd_int (n : ℤ) (by rw [abs_of_nonneg (by positivity)]; exact_mod_cast h)
  simpa using this

end F1.FloatSpec
