/-
C06 — regenerated facts: the anchored functions still read as the model of C06 assumes.
`Generated.*` is rewritten from /repo's working tree on every run; `Expected.*` is what the model was written against.
-/
import F1Verif.Generated.Facts
import F1Verif.Expected
namespace F1.Props.FactsC06

-- (t_Reset, t_Fail, active_Run, active_Setup: re-proved semantically on the regenerated MiniGo programs, see Props/Refine*.lean)

theorem fact_run_run : F1.Generated.skel_run_run = F1.Expected.skel_run_run := by rfl
theorem fact_run_teardown : F1.Generated.skel_run_teardown = F1.Expected.skel_run_teardown := by rfl
theorem fact_run_reportSetupFailure : F1.Generated.skel_run_reportSetupFailure = F1.Expected.skel_run_reportSetupFailure := by rfl
theorem fact_t_teardown : F1.Generated.skel_t_teardown = F1.Expected.skel_t_teardown := by rfl
theorem fact_t_CheckResults : F1.Generated.skel_t_CheckResults = F1.Expected.skel_t_CheckResults := by rfl
theorem fact_t_Cleanup : F1.Generated.skel_t_Cleanup = F1.Expected.skel_t_Cleanup := by rfl
theorem fact_active_TeardownFailed : F1.Generated.skel_active_TeardownFailed = F1.Expected.skel_active_TeardownFailed := by rfl
theorem fact_active_Failed : F1.Generated.skel_active_Failed = F1.Expected.skel_active_Failed := by rfl
theorem fact_run_fail : F1.Generated.skel_run_fail = F1.Expected.skel_run_fail := by rfl
theorem fact_t_handlePanic : F1.Generated.skel_t_handlePanic = F1.Expected.skel_t_handlePanic := by rfl

end F1.Props.FactsC06
