/- C07 / C06 — the regenerated state methods of the iteration handle (`T.Fail`, `T.FailNow`, `T.Reset`, `T.Failed`,
`T.TeardownFailed`) refine the handle model (see Props/RefineBase.lean for what a refinement theorem says and assumes) -/
import F1Verif.Props.RefineBase
import F1Verif.Model.Handle

namespace F1.Props.Refine
open F1.MiniGo F1.Generated.MG F1.Handle

def tState (t : T) : State Rat :=
  State.ofVars [("recv.failed", .bool t.failed), ("recv.teardownFailed", .bool t.teardownFailed),
    ("recv.tearingDown", .bool t.tearingDown), ("recv.Iteration", .nonNil), ("recv.teardownStack", .nonNil),
    ("errFailNow", .nonNil), ("arg0", .nonNil)]

def tCells : List String := ["recv.failed", "recv.teardownFailed", "recv.tearingDown"]

def tObs (t : T) : List (Option (Val Rat)) :=
  [some (.bool t.failed), some (.bool t.teardownFailed), some (.bool t.tearingDown)]

/-- `Fail` marks the failure where the handle currently stands: the iteration while its body runs, the teardown while
cleanups run -/
theorem t_Fail_refines (t : T) :
    observe (runFn noExt 0 t_Fail (tState t)) tCells = some ([], tObs t.mark) := by
  cases ht : t.tearingDown <;> simp [minigo, t_Fail, tState, tCells, tObs, T.mark, ht]

/-- `FailNow` marks the same way and then panics with the sentinel (nothing after it runs) -/
theorem t_FailNow_refines (t : T) :
    observe (runFn noExt 0 t_FailNow (tState t)) tCells = some ([], tObs t.mark) ∧
    traceOf (runFn noExt 0 t_FailNow (tState t)) = ["panic(…)"] := by
  cases ht : t.tearingDown <;> simp [minigo, t_FailNow, tState, tCells, tObs, T.mark, ht]

/-- `Reset` leaves a clean handle: not failed, not tearing down, a fresh cleanup stack, the new iteration id -/
theorem t_Reset_refines (t : T) :
    observe (runFn noExt 0 t_Reset (tState t)) (tCells ++ ["recv.Iteration", "recv.teardownStack"]) =
      some ([], tObs t.reset ++ [some .nonNil, some .nonNil]) := by
  simp [minigo, t_Reset, tState, tCells, tObs, T.reset]

theorem t_Failed_refines (t : T) :
    observe (runFn noExt 0 t_Failed (tState t)) [] = some ([.bool t.failed], []) := by
  simp [minigo, t_Failed, tState]

theorem t_TeardownFailed_refines (t : T) :
    observe (runFn noExt 0 t_TeardownFailed (tState t)) [] = some ([.bool t.teardownFailed], []) := by
  simp [minigo, t_TeardownFailed, tState]

end F1.Props.Refine
