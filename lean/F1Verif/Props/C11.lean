/-
C11 — gaussian profile: nothing fractional is lost, requests are never negative, no tick exceeds the
peak tick by more than one, the weight of a window is selected by its index.
The carry of `For` over exact arithmetic: `out k = ⌊rate k + rem k⌋`, `rem (k+1) = rate k + rem k − out k`.
-/
import F1Verif.Model.Gaussian
import Mathlib.Algebra.Order.Floor.Defs
import Mathlib.Algebra.Order.Floor.Ring
import Mathlib.Data.Rat.Floor
import Mathlib.Tactic.Linarith
import Mathlib.Tactic.Ring
import Mathlib.Algebra.BigOperators.Group.Finset.Basic
import Mathlib.Algebra.BigOperators.Ring.Finset
import Mathlib.Tactic.LinearCombination
import Mathlib.Tactic.Positivity
namespace F1.Props.C11
open F1.Gaussian

/-- the carry: (remainder before tick k, value emitted at tick k) -/
def rem (rate : ℕ → ℚ) : ℕ → ℚ
  | 0 => 0
  | k + 1 => rate k + rem rate k - ⌊rate k + rem rate k⌋

def out (rate : ℕ → ℚ) (k : ℕ) : ℤ := ⌊rate k + rem rate k⌋

theorem rem_range (rate : ℕ → ℚ) (k : ℕ) : 0 ≤ rem rate k ∧ rem rate k < 1 := by
  cases k with
  | zero => simp [rem]
  | succ k =>
    simp only [rem]
    constructor
    · linarith [Int.floor_le (rate k + rem rate k)]
    · linarith [Int.lt_floor_add_one (rate k + rem rate k)]

/-- C11 (carry): over any span of ticks the emitted total equals the total of the exact rates minus
the remainder still carried (< 1): fractional rates are carried to later ticks, never lost. -/
theorem C11_carry (rate : ℕ → ℚ) (n : ℕ) :
    (Finset.range n).sum (fun k => (out rate k : ℚ)) + rem rate n = (Finset.range n).sum rate := by
  induction n with
  | zero => simp [rem]
  | succ n ih =>
    rw [Finset.sum_range_succ, Finset.sum_range_succ]
    simp only [rem, out] at *
    linarith

theorem C11_total_close (rate : ℕ → ℚ) (n : ℕ) :
    |(Finset.range n).sum (fun k => (out rate k : ℚ)) - (Finset.range n).sum rate| < 1 := by
  have h := C11_carry rate n
  have r := rem_range rate n
  rw [abs_lt]; constructor <;> linarith

/-- C11 (non-negative): non-negative rates never yield a negative request -/
theorem C11_nonneg (rate : ℕ → ℚ) (h : ∀ k, 0 ≤ rate k) (k : ℕ) : 0 ≤ out rate k := by
  unfold out
  apply Int.floor_nonneg.mpr
  linarith [h k, (rem_range rate k).1]

/-- C11 (peak): no tick requests more than one above the tick with the highest rate -/
theorem C11_peak (rate : ℕ → ℚ) (p : ℕ) (h : ∀ k, rate k ≤ rate p) (k : ℕ) : out rate k ≤ out rate p + 1 := by
  unfold out
  have r1 := rem_range rate k
  have r2 := rem_range rate p
  have h1 : (⌊rate k + rem rate k⌋ : ℚ) ≤ rate k + rem rate k := Int.floor_le _
  have h2 : rate p + rem rate p < ⌊rate p + rem rate p⌋ + 1 := Int.lt_floor_add_one _
  have : (⌊rate k + rem rate k⌋ : ℚ) < ⌊rate p + rem rate p⌋ + 1 + 1 := by linarith [h k]
  have : ⌊rate k + rem rate k⌋ < ⌊rate p + rem rate p⌋ + 1 + 1 := by exact_mod_cast this
  omega

/-- C11 (volume, algebraic part): the rates of one window are `V·Δ·(w/w̄)/cov · pdf`, so their sum is
`V·(w/w̄)` times the ratio of the Riemann sum of the density to the probability mass it is normalised
by; the emitted total is within 1 of it. The ratio's distance from 1 is the discretisation error of
the tick frequency (checked numerically by the driver on the real PDF/CDF values). -/
theorem C11_volume (V Δ wr cov : ℚ) (pdf : ℕ → ℚ) (n : ℕ) :
    |(Finset.range n).sum (fun j => (out (fun k => pdf k * (V * Δ / cov) * wr) j : ℚ)) - V * wr * (((Finset.range n).sum pdf) * Δ / cov)| < 1 := by
  have h := C11_total_close (fun k => pdf k * (V * Δ / cov) * wr) n
  have e : (Finset.range n).sum (fun k => pdf k * (V * Δ / cov) * wr) = V * wr * (((Finset.range n).sum pdf) * Δ / cov) := by
    rw [← Finset.sum_mul, ← Finset.sum_mul]; ring
  rw [e] at h; exact h

/-! ### weight selection by window index -/

theorem weightIndexLoop_spec (w : Int) (hw : 0 < w) : ∀ (fuel : Nat) (sow start : Int) (i j : Nat),
    start = sow + (j : Int) * w → j < fuel → weightIndexLoop fuel sow start w i = some (i + j) := by
  intro fuel
  induction fuel with
  | zero => intro _ _ _ j _ hj; omega
  | succ fuel ih =>
    intro sow start i j hs hj
    simp only [weightIndexLoop]
    by_cases h : sow = start
    · have hjw : (j : Int) * w = 0 := by omega
      have : j = 0 := by
        rcases Int.mul_eq_zero.mp hjw with h1 | h1
        · exact_mod_cast h1
        · omega
      simp [h, this]
    · simp only [h, if_false]
      have hj0 : j ≠ 0 := by
        intro e; subst e; simp at hs; exact h hs.symm
      obtain ⟨j', rfl⟩ : ∃ j', j = j' + 1 := ⟨j - 1, by omega⟩
      have := ih (sow + w) start (i + 1) j' (by push_cast at hs ⊢; linarith) (by omega)
      rw [this]; congr 1; omega

/-- C11 (weight index): for a window length `w > 0` and `len > 0` weights the loop terminates and
selects the weight with index `⌊t / w⌋ mod len` — the index of the window in the cycle of weights,
counted from Go's zero time. -/
theorem C11_weight_index (t w : Int) (len : Nat) (ht : 0 ≤ t) (hw : 0 < w) (hl : 0 < len) :
    weightIndex t w len = some ((t / w) % len).toNat := by
  unfold weightIndex
  have hwl : 0 < w * (len : Int) := Int.mul_pos hw (by exact_mod_cast hl)
  have h1 : ¬ w ≤ 0 := by omega
  have h2 : ¬ w * (len : Int) ≤ 0 := by omega
  simp only [truncate, h1, h2, if_false]
  have hlz : (0 : Int) < (len : Int) := by exact_mod_cast hl
  have hq := Int.mul_ediv_add_emod t w
  have hl' := Int.mul_ediv_add_emod (t / w) (len : Int)
  have r0 := Int.emod_nonneg t (ne_of_gt hw)
  have r1 := Int.emod_lt_of_pos t hw
  have s0 := Int.emod_nonneg (t / w) (ne_of_gt hlz)
  have s1 := Int.emod_lt_of_pos (t / w) hlz
  have key : t % (w * (len : Int)) = w * ((t / w) % (len : Int)) + t % w := by
    have := (Int.ediv_emod_unique (a := t) (b := w * (len : Int)) (r := w * ((t / w) % (len : Int)) + t % w)
      (q := (t / w) / (len : Int)) hwl).mpr ⟨by linear_combination hq + w * hl', by positivity, by nlinarith⟩
    exact this.2
  have hj : ((t / w) % (len : Int)).toNat < len + 1 := by
    have : ((t / w) % (len : Int)).toNat < len := by
      rw [Int.toNat_lt s0]; exact s1
    omega
  have := weightIndexLoop_spec w hw (len + 1) (t - t % (w * (len : Int))) (t - t % w) 0 ((t / w) % (len : Int)).toNat
    (by rw [Int.toNat_of_nonneg s0, key]; ring) hj
  simpa using this

end F1.Props.C11
