/- C05 / C06 / C01 — the regenerated run controller: `Run.run`, `Run.Do`, `teardownActiveScenario`, `reportSetupFailure`,
`pushMetrics`, `printSummary`, `fail` (internal/run/test_runner.go). A `select` is a choice of the runtime: the translator
turns it into an oracle call `$select<k>` (k numbering the selects of the function in source order) followed by the chosen
case, and logs which communications were *offered* as an effect. The theorems below hold for every choice the runtime can
make; they say in which order the controller does what, and — D27 — that every wait of `run` after the trigger has returned
offers the completion timeout as an alternative (see Props/RefineBase.lean for what a refinement theorem says and assumes) -/
import F1Verif.Props.RefineBase

namespace F1.Props.Refine
open F1.MiniGo F1.Generated.MG

set_option maxHeartbeats 1000000

/-- the externals of `Run.run`: `c0` is the case the runtime picks in the outer select, `c1` the one it picks in the inner
wait (of the interrupted / duration-elapsed branches); `deadline`: the trigger context ended because its deadline passed -/
def ctlExt (c0 c1 : Nat) (deadline : Bool) : Ext Rat := fun f _ args =>
  if f = "context.WithTimeout" then (match args with | .int 0 :: _ => .ref 1 | _ => .ref 2)
  else if f = "workers.New" then .ref 3
  else if f = "Err()" then (if deadline then .ref 20 else .ref 21)
  else if f = "$select0" then .int c0
  else if f = "$select1" ∨ f = "$select2" then .int c1
  else .nil

def ctlState (maxDur trigDur window : Int) (reached : Bool) : State Rat :=
  State.ofVars [("arg0", .ref 0), ("recv.options.MaxDuration", .int maxDur), ("recv.trigger.Duration", .int trigDur),
    ("nextIterationWindow", .int window), ("recv.options.MaxIterations", .int 0), ("recv.activeScenario", .ref 4),
    ("recv.output", .ref 5), ("recv.options", .ref 6), ("recv.result.Interrupted()", .ref 10),
    ("recv.result.MaxDurationElapsed()", .ref 11), ("recv.result.MaxIterationsReached()", .ref 12),
    ("poolManager.MaxIterationsReached()", .bool reached), ("context.DeadlineExceeded", .ref 20)]

/-- the alternative that bounds a wait -/
def timeoutCase : String := "time.After(recv.waitForCompletionTimeout)"
def offerAll : String :=
  "select{arg0.Done() | triggerCtx.Done() | poolManager.WaitForCompletion() | time.After(recv.waitForCompletionTimeout)}"
def offerWait : String := "select{poolManager.WaitForCompletion() | time.After(recv.waitForCompletionTimeout)}"
def rcvDone : String := "receive poolManager.WaitForCompletion()"
def rcvTimeout : String := "receive time.After(recv.waitForCompletionTimeout)"
def display : String := "recv.output.Display(…)"

/-- the wait for in-flight iterations of the interrupted / duration-elapsed branches -/
def innerWait (c1 : Nat) : List String :=
  offerWait :: (if c1 = 0 then [rcvDone] else [rcvTimeout, display])

/-- what `Run.run` does, as a function of the runtime's choices -/
def runSpec (c0 c1 : Nat) (reached : Bool) : List String :=
  ["recv.result.RecordStarted", "recv.trigger.Trigger(…)", offerAll] ++
  (match c0 with
   | 0 => ["receive arg0.Done()", display, "recv.progressRunner.Restart"] ++ innerWait c1
   | 1 => ["receive triggerCtx.Done()", display] ++ innerWait c1
   | 2 => rcvDone :: (if reached then [display] else [])
   | _ => rcvTimeout :: ((if reached then [display] else []) ++ [display])) ++
  ["triggerCancel", "recv.result.RecordTestFinished"]

/-- the duration the trigger context is limited to -/
def runDuration (maxDur trigDur : Int) : Int := if 0 < trigDur ∧ trigDur < maxDur then trigDur else maxDur

/-- **the regenerated `Run.run`**, for every choice of the runtime (`c0 < 4`, `c1 < 2`): the trace is `runSpec`; the deferred
calls run last, cancel first -/
theorem run_run_refines (c0 c1 : Nat) (h0 : c0 < 4) (h1 : c1 < 2) (deadline reached : Bool) (maxDur trigDur window : Int) :
    traceOf (runFn (ctlExt c0 c1 deadline) 0 run_run (ctlState maxDur trigDur window reached)) = runSpec c0 c1 reached := by
  obtain rfl | rfl | rfl | rfl : c0 = 0 ∨ c0 = 1 ∨ c0 = 2 ∨ c0 = 3 := by omega
  all_goals obtain rfl | rfl : c1 = 0 ∨ c1 = 1 := by omega
  all_goals cases deadline <;> cases reached <;>
    simp [minigo, run_run, ctlState, ctlExt, runSpec, innerWait, offerAll, offerWait, timeoutCase, rcvDone, rcvTimeout, display]

/-- the trigger's context is limited to the shorter of the two durations less the guard window; the trigger is handed that
context and the new pool manager (shown on the path where the iterations finish by themselves) -/
theorem run_run_trigger_context (deadline reached : Bool) (maxDur trigDur window : Int) :
    observe (runFn (ctlExt 2 0 deadline) 0 run_run (ctlState maxDur trigDur window reached))
        ["$arg.recv.trigger.Trigger.0", "$arg.recv.trigger.Trigger.2"] = some ([], [some (.ref 1), some (.ref 3)]) ∧
    (match runFn (ctlExt 2 0 deadline) 0 run_run (ctlState maxDur trigDur window reached) with
     | .ok (_, s) => lookup "context.WithTimeout" s.arrs = some [[("0", Val.ref 0), ("1", Val.int (runDuration maxDur trigDur - window))]]
     | .error _ => False) := by
  cases deadline <;> cases reached <;> by_cases hd : 0 < trigDur ∧ trigDur < maxDur <;>
    simp [minigo, run_run, ctlState, ctlExt, runDuration, hd] <;>
    first | done | (intro h1 h2; exact absurd ⟨h1, h2⟩ hd)

/-- which message the duration-elapsed branch shows: "max duration elapsed" exactly when the trigger context ended by its
deadline, "interrupted" otherwise (the iterations then finish inside the wait: nothing else is displayed) -/
theorem run_run_message (deadline reached : Bool) (maxDur trigDur window : Int) :
    observe (runFn (ctlExt 1 0 deadline) 0 run_run (ctlState maxDur trigDur window reached)) ["$arg.recv.output.Display.0"] =
      some ([], [some (if deadline then .ref 11 else .ref 10)]) := by
  cases deadline <;> cases reached <;> by_cases hd : 0 < trigDur ∧ trigDur < maxDur <;>
    simp [minigo, run_run, ctlState, ctlExt, hd]

/-- **D27, C05 (bounded wait).** Whatever the runtime chooses, every wait `Run.run` enters after the trigger has returned
offers the completion timeout as an alternative, and `run` does not return before it has received either the pool's
completion or that timeout; interruption and the end of the duration are not exits by themselves -/
theorem run_run_bounded_wait (c0 c1 : Nat) (h0 : c0 < 4) (h1 : c1 < 2) (reached : Bool) :
    (∀ e ∈ runSpec c0 c1 reached, e.startsWith "select{" → e = offerAll ∨ e = offerWait) ∧
    (rcvDone ∈ runSpec c0 c1 reached ∨ rcvTimeout ∈ runSpec c0 c1 reached) := by
  obtain rfl | rfl | rfl | rfl : c0 = 0 ∨ c0 = 1 ∨ c0 = 2 ∨ c0 = 3 := by omega
  all_goals obtain rfl | rfl : c1 = 0 ∨ c1 = 1 := by omega
  all_goals cases reached <;>
    simp [runSpec, innerWait, offerAll, offerWait, timeoutCase, rcvDone, rcvTimeout, display]

/-- both offers end with the timeout alternative -/
theorem offers_have_timeout :
    offerAll = "select{arg0.Done() | triggerCtx.Done() | poolManager.WaitForCompletion() | " ++ timeoutCase ++ "}" ∧
    offerWait = "select{poolManager.WaitForCompletion() | " ++ timeoutCase ++ "}" := by
  simp [offerAll, offerWait, timeoutCase]

/-! `Run.Do` -/

def doExt (pushErr : Bool := false) : Ext Rat := fun f _ _ =>
  if f = "recv.views.Start" then .ref 30
  else if f = "xcontext.Detach" then .ref 31
  else if f = "recv.reportSetupFailure" then .ref 32
  else if f = "recv.pusher.PushContext" then (if pushErr then .nonNil else .nil)
  else .nil

def doState (setupFailed : Bool) : State Rat :=
  State.ofVars [("arg0", .ref 0), ("recv.activeScenario.Failed()", .bool setupFailed), ("recv.result", .ref 40)]

/-- **the regenerated `Run.Do`** (C06: setup once, before anything else of the run; teardown after everything of the run;
C05: the progress runner is stopped and the totals are taken after `run` has returned; C01 / C19: the summary is printed
after the teardown, the log file closed last). With a failed setup nothing of the run happens: the failure is reported,
then teardown, summary, close -/
theorem run_Do_refines (setupFailed : Bool) :
    traceOf (runFn (doExt) 0 run_Do (doState setupFailed)) =
      ["recv.output.Display(…)", "recv.metrics.Reset", "recv.activeScenario.Setup", "recv.pushMetrics(…)"] ++
      (if setupFailed then [] else
        ["recv.result.RecordStarted", "go func", "recv.progressRunner.Start(…)", "recv.run(…)", "recv.progressRunner.Stop",
         "close(…)", "recv.result.GetTotals"]) ++
      ["recv.teardownActiveScenario", "recv.printSummary", "recv.scenarioLogger.Close"] ∧
    observe (runFn (doExt) 0 run_Do (doState setupFailed)) [] =
      some ([if setupFailed then .ref 32 else .ref 40, .nil], []) := by
  cases setupFailed <;> simp [minigo, run_Do, doState, doExt]

/-- `teardownActiveScenario`: the scenario's teardown runs first; a failed teardown is added to the result before the metrics
are pushed and the teardown line is displayed -/
theorem run_teardown_refines (tdFailed : Bool) :
    traceOf (runFn (doExt) 0 run_teardown (State.ofVars [("arg0", .ref 0), ("recv.activeScenario.TeardownFailed()", .bool tdFailed),
        ("recv.result.Teardown()", .ref 41)])) =
      ["recv.activeScenario.Teardown"] ++ (if tdFailed then ["recv.fail(…)"] else []) ++
      ["recv.pushMetrics(…)", "recv.output.Display(…)"] := by
  cases tdFailed <;> simp [minigo, run_teardown, doExt]

/-- `reportSetupFailure`: the error is added to the result before the push and the display; the result is what is returned -/
theorem run_reportSetupFailure_refines :
    traceOf (runFn (doExt) 0 run_reportSetupFailure (State.ofVars [("arg0", .ref 0), ("recv.result", .ref 40),
        ("recv.result.Setup()", .ref 42)])) = ["recv.fail(…)", "recv.pushMetrics(…)", "recv.output.Display(…)"] ∧
    observe (runFn (doExt) 0 run_reportSetupFailure (State.ofVars [("arg0", .ref 0), ("recv.result", .ref 40),
        ("recv.result.Setup()", .ref 42)])) [] = some ([.ref 40], []) := by
  simp [minigo, run_reportSetupFailure, doExt]

/-- `pushMetrics`: nothing without a pusher; with one, a failed push is displayed and nothing else happens (the run goes on) -/
theorem run_pushMetrics_refines (hasPusher pushErr : Bool) :
    traceOf (runFn (doExt pushErr) 0 run_pushMetrics (State.ofVars [("arg0", .ref 0),
        ("recv.pusher", if hasPusher then .ref 50 else .nil)])) =
      (if hasPusher ∧ pushErr then ["recv.output.Display(…)"] else []) ∧
    observeC (runFn (doExt pushErr) 0 run_pushMetrics (State.ofVars [("arg0", .ref 0),
        ("recv.pusher", if hasPusher then .ref 50 else .nil)])) [] ["recv.pusher.PushContext"] =
      some ([], [], [if hasPusher then 1 else 0]) := by
  cases hasPusher <;> cases pushErr <;> simp [minigo, run_pushMetrics, doExt]

/-- `printSummary` displays `Result.Summary()`; `fail` adds one error to the result -/
theorem run_printSummary_fail_refine :
    observe (runFn (doExt) 0 run_printSummary (State.ofVars [("recv.result.Summary()", .ref 43)])) ["$arg.recv.output.Display.0"] =
      some ([], [some (.ref 43)]) ∧
    traceOf (runFn (doExt) 0 run_printSummary (State.ofVars [("recv.result.Summary()", .ref 43)])) = ["recv.output.Display(…)"] ∧
    traceOf (runFn (doExt) 0 run_fail (State.ofVars [])) = ["recv.result.AddError(…)"] := by
  simp [minigo, run_printSummary, run_fail, doExt]

end F1.Props.Refine
