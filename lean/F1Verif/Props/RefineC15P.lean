/- C15 — the stage loop of the regenerated `ParseConfigFile` (internal/trigger/file/file_parser.go), executed by the
MiniGo semantics: stages are validated in file order, the cumulative duration grows by every validated stage (kept or
not), a stage is parsed and kept iff no stage-start is given or stage-start + cumulative duration (including this stage)
is after now, kept stages are appended in file order, and the first error ends the function. The per-stage functions
(`validateCommonFieldsOfStage`, `parseStage`) are externals here — their own refinement theorems are in RefineC15 —
answering through an oracle indexed by call number; what they were *called with* is logged and is part of the result. -/
import F1Verif.Props.RefineBase

namespace F1.Props.Refine
open F1.MiniGo F1.Generated.MG

section plan
variable {F : Type} [FloatLike F]

abbrev PRec (F : Type) := List (String × Val F)

/-- the externals of `ParseConfigFile`: YAML decoding fails iff `yErr`; `validateCommonFields` yields `vcf` (error iff
`cErr`); the k-th stage validation yields `vOf k` (error iff `vErr k`), the k-th parse `pOf k` (error iff `pErr k`); a
validated stage `v` lasts `durOf v`; the schedule has the stage-start `start`; any other field `f` of a value `v` is
`proj f v` -/
structure PlanOracle (F : Type) where
  yErr : Bool
  cErr : Bool
  vcf : Val F
  vOf : Nat → Val F
  pOf : Nat → Val F
  vErr : Nat → Bool
  pErr : Nat → Bool
  durOf : Val F → Int
  start : Option Int
  proj : String → Val F → Val F

def planExt (O : PlanOracle F) : Ext F :=
  fun f n args =>
    if f = "validateCommonFieldsOfStage" then
      (match args with | .int 0 :: _ => O.vOf n | _ => if O.vErr n then .nonNil else .nil)
    else if f = "parseStage" then
      (match args with | .int 0 :: _ => O.pOf n | _ => if O.pErr n then .nonNil else .nil)
    else if f = "Duration" then (match args with | [v] => .int (O.durOf v) | _ => .nil)
    else if f = "StageStart" then optInt O.start
    else if f = "Default" then .ref 0
    else if f = "yaml.Unmarshal" then (if O.yErr then .nonNil else .nil)
    else if f = "validateCommonFields" then
      (match args with | .int 0 :: _ => O.vcf | _ => if O.cErr then .nonNil else .nil)
    else (match args with | [v] => O.proj f v | _ => .nil)

/-- the locals of `ParseConfigFile` that the loop changes -/
structure PL (F : Type) where
  err : Val F
  stg : Val F                 -- the variable `stages` (nil until the first append)
  total : Int
  i : Int
  idx : Val F
  sc : Val F
  vs : Val F
  ss : Val F
  ps : Val F
  nv : Nat
  np : Nat
  kept : List (Val F)
  logV : List (PRec F)
  logP : List (PRec F)

def planLoop : Stmt :=
  (.while (.bin .lt (.var "$i0") (.var "$n0"))
  (.seq (.assign "idx" (.var "$i0"))
  (.seq (.assign "stageConfig" (.index "validatedConfigFile.Stages" (.var "$i0") ""))
  (.seq (.seq (.callS ["validatedStage", "err"] "validateCommonFieldsOfStage" "" [(.var "stageConfig"), (.var "idx"), (.field (.var "validatedConfigFile") "Default")])
  (.seq (.ite (.bin .ne (.var "err") .nil)
  (.ret2 .nil (.var "err"))
  .skip)
  (.seq (.assign "stagesTotalDuration" (.bin .add (.var "stagesTotalDuration") (.field (.var "validatedStage") "Duration")))
  (.seq (.assign "stageStart" (.field (.field (.var "validatedConfigFile") "Schedule") "StageStart"))
  (.ite (.bin .lor (.bin .eq (.var "stageStart") .nil) (.builtin2 "After" (.builtin2 "Add" (.var "stageStart") (.var "stagesTotalDuration")) (.var "arg1")))
  (.seq (.callS ["parsedStage", "err"] "parseStage" "" [(.var "validatedStage"), (.var "idx"), (.field (.var "validatedConfigFile") "Default")])
  (.seq (.ite (.bin .ne (.var "err") .nil)
  (.ret2 .nil (.var "err"))
  .skip)
  (.append "stages" (.var "parsedStage"))))
  .skip)))))
  (.assign "$i0" (.bin .add (.var "$i0") (.int 1)))))))

def precs (l : List (Val F)) : List (PRec F) := l.map fun c => [("", c)]

/-- the state of `ParseConfigFile` around its loop: `a0` the file content, `now`, the decoded and the validated
configuration, the stages `all` of the latter, `c1`/`c2`/`logC` what the calls before the loop left -/
def planState (a0 : Val F) (now : Int) (cf vcf : Val F) (all : List (Val F)) (c1 c2 : Nat) (logC : List (PRec F)) (L : PL F) : State F :=
  ⟨[("arg0", a0), ("arg1", .int now), ("configFile", cf), ("err", L.err), ("validatedConfigFile", vcf), ("stages", L.stg),
    ("stagesTotalDuration", .int L.total), ("$n0", .int all.length), ("$i0", .int L.i), ("idx", L.idx), ("stageConfig", L.sc),
    ("validatedStage", L.vs), ("stageStart", L.ss), ("parsedStage", L.ps)],
   [("yaml.Unmarshal", c1), ("validateCommonFields", c2), ("validateCommonFieldsOfStage", L.nv), ("parseStage", L.np)], [], [],
   [("validatedConfigFile.Stages", precs all), ("validateCommonFields", logC), ("stages", precs L.kept),
    ("validateCommonFieldsOfStage", L.logV), ("parseStage", L.logP)]⟩

/-- the skip rule -/
def keepStage (start : Option Int) (now total : Int) : Bool :=
  match start with | none => true | some st => decide (st + total > now)

def argRec (a b c : Val F) : PRec F := [("0", a), ("1", b), ("2", c)]

/-- the loop as a function on the locals -/
def planSpec (O : PlanOracle F)
    (a0 : Val F) (now : Int) (cf vcf : Val F) (all : List (Val F)) (c1 c2 : Nat) (logC : List (PRec F)) :
    List (Val F) → PL F → Outcome F
  | [], L => .normal (planState a0 now cf vcf all c1 c2 logC L)
  | sc :: rest, L =>
    let L1 : PL F := { L with idx := .int L.i, sc := sc, vs := O.vOf L.nv, err := if O.vErr L.nv then .nonNil else .nil,
                              nv := L.nv + 1, logV := L.logV ++ [argRec sc (.int L.i) (.ref 0)] }
    if O.vErr L.nv then .returned [.nil, .nonNil] (planState a0 now cf vcf all c1 c2 logC L1)
    else
      let total := L.total + O.durOf (O.vOf L.nv)
      let L2 : PL F := { L1 with total := total, ss := optInt O.start }
      if keepStage O.start now total then
        let L3 : PL F := { L2 with ps := O.pOf L.np, err := if O.pErr L.np then .nonNil else .nil, np := L.np + 1,
                                   logP := L.logP ++ [argRec (O.vOf L.nv) (.int L.i) (.ref 0)] }
        if O.pErr L.np then .returned [.nil, .nonNil] (planState a0 now cf vcf all c1 c2 logC L3)
        else planSpec O a0 now cf vcf all c1 c2 logC rest
               { L3 with stg := .nonNil, kept := L.kept ++ [O.pOf L.np], i := L.i + 1 }
      else planSpec O a0 now cf vcf all c1 c2 logC rest { L2 with i := L.i + 1 }

theorem planLoop_spec (O : PlanOracle F)
    (a0 : Val F) (now : Int) (cf vcf : Val F) (c1 c2 : Nat) (logC : List (PRec F)) :
    ∀ (rest pre : List (Val F)) (L : PL F) (fuel : Nat), rest.length + 1 ≤ fuel → L.i = pre.length →
      exec (planExt O) fuel planLoop (planState a0 now cf vcf (pre ++ rest) c1 c2 logC L) =
        planSpec O a0 now cf vcf (pre ++ rest) c1 c2 logC rest L
  | [], pre, L, fuel, hf, hi => by
    obtain ⟨f, rfl⟩ : ∃ f, fuel = f + 1 := ⟨fuel - 1, by simp at hf; omega⟩
    simp [minigo, planLoop, planState, planSpec, hi]
  | sc :: rest, pre, L, fuel, hf, hi => by
    obtain ⟨f, rfl⟩ : ∃ f, fuel = f + 1 := ⟨fuel - 1, by simp at hf; omega⟩
    have h1 : (pre.length : Int) < pre.length + ((rest.length : Int) + 1) := by omega
    have h2 : ¬ ((pre.length : Int) < 0) := by omega
    by_cases hv : O.vErr L.nv = true
    · simp [minigo, planLoop, planState, planSpec, planExt, precs, argRec, hi, h1, h2, hv]
    · have hidx : (pre.length : Int) + 1 = ((pre ++ [sc]).length : Int) := by simp
      rcases hst : O.start with _ | st
      ·
        by_cases hp : O.pErr L.np = true
        · simp [minigo, planLoop, planState, planSpec, planExt, precs, argRec, hi, h1, h2, hv, hp, keepStage, hst]
        · have ih := planLoop_spec O a0 now cf vcf c1 c2 logC rest (pre ++ [sc])
            { L with idx := .int L.i, sc := sc, vs := O.vOf L.nv, err := .nil, nv := L.nv + 1,
                     logV := L.logV ++ [argRec sc (.int L.i) (.ref 0)], total := L.total + O.durOf (O.vOf L.nv), ss := .nil,
                     ps := O.pOf L.np, np := L.np + 1, logP := L.logP ++ [argRec (O.vOf L.nv) (.int L.i) (.ref 0)],
                     stg := .nonNil, kept := L.kept ++ [O.pOf L.np], i := L.i + 1 } f (by simp at hf ⊢; omega) (by simp [hi])
          simp only [List.append_assoc, List.singleton_append] at ih
          simp [planLoop, planState, precs, argRec, hst] at ih
          simp [minigo, planLoop, planState, planSpec, planExt, precs, argRec, hi, h1, h2, hv, hp, keepStage, hst]
          rw [hi] at ih
          exact ih
      ·
        by_cases hk : st + (L.total + O.durOf (O.vOf L.nv)) > now
        · by_cases hp : O.pErr L.np = true
          · simp [minigo, planLoop, planState, planSpec, planExt, precs, argRec, hi, h1, h2, hv, hp, keepStage, hk, hst]
          · have ih := planLoop_spec O a0 now cf vcf c1 c2 logC rest (pre ++ [sc])
              { L with idx := .int L.i, sc := sc, vs := O.vOf L.nv, err := .nil, nv := L.nv + 1,
                       logV := L.logV ++ [argRec sc (.int L.i) (.ref 0)], total := L.total + O.durOf (O.vOf L.nv), ss := .int st,
                       ps := O.pOf L.np, np := L.np + 1, logP := L.logP ++ [argRec (O.vOf L.nv) (.int L.i) (.ref 0)],
                       stg := .nonNil, kept := L.kept ++ [O.pOf L.np], i := L.i + 1 } f (by simp at hf ⊢; omega) (by simp [hi])
            simp only [List.append_assoc, List.singleton_append] at ih
            simp [planLoop, planState, precs, argRec, hst] at ih
            simp [minigo, planLoop, planState, planSpec, planExt, precs, argRec, hi, h1, h2, hv, hp, keepStage, hk, hst]
            rw [hi] at ih
            exact ih
        · have ih := planLoop_spec O a0 now cf vcf c1 c2 logC rest (pre ++ [sc])
            { L with idx := .int L.i, sc := sc, vs := O.vOf L.nv, err := .nil, nv := L.nv + 1,
                     logV := L.logV ++ [argRec sc (.int L.i) (.ref 0)], total := L.total + O.durOf (O.vOf L.nv), ss := .int st,
                     i := L.i + 1 } f (by simp at hf ⊢; omega) (by simp [hi])
          simp only [List.append_assoc, List.singleton_append] at ih
          simp [planLoop, planState, precs, argRec, hst] at ih
          simp [minigo, planLoop, planState, planSpec, planExt, precs, argRec, hi, h1, h2, hv, keepStage, hk, hst]
          rw [hi] at ih
          exact ih

/-! #### what the loop computes, read purely -/

/-- the loop on `n` stages from position `i`, validation call `nv`, parse call `np` and cumulative duration `t`:
`none` when a validation or a parse of a kept stage fails, else the total duration and the kept stages as
(position, validation call, parse call) -/
def planPure (O : PlanOracle F) (now : Int) : Nat → Int → Nat → Nat → Int → Option (Int × List (Int × Nat × Nat))
  | 0, _, _, _, t => some (t, [])
  | n + 1, i, nv, np, t =>
    if O.vErr nv then none else
    let t' := t + O.durOf (O.vOf nv)
    if keepStage O.start now t' then
      if O.pErr np then none else (planPure O now n (i + 1) (nv + 1) (np + 1) t').map fun r => (r.1, (i, nv, np) :: r.2)
    else planPure O now n (i + 1) (nv + 1) np t'

/-- the validation calls: every stage, in file order, with its position -/
def logVOf (i : Int) : List (Val F) → List (PRec F)
  | [] => []
  | sc :: r => argRec sc (.int i) (.ref 0) :: logVOf (i + 1) r

theorem planSpec_pure (O : PlanOracle F) (a0 : Val F) (now : Int) (cf vcf : Val F) (all : List (Val F)) (c1 c2 : Nat)
    (logC : List (PRec F)) : ∀ (rest : List (Val F)) (L : PL F),
    match planPure O now rest.length L.i L.nv L.np L.total with
    | none => ∃ L', planSpec O a0 now cf vcf all c1 c2 logC rest L = .returned [.nil, .nonNil] (planState a0 now cf vcf all c1 c2 logC L')
    | some (T, K) => ∃ L', planSpec O a0 now cf vcf all c1 c2 logC rest L = .normal (planState a0 now cf vcf all c1 c2 logC L') ∧
        L'.total = T ∧ L'.kept = L.kept ++ K.map (fun k => O.pOf k.2.2) ∧ L'.nv = L.nv + rest.length ∧
        L'.np = L.np + K.length ∧
        L'.logV = L.logV ++ logVOf L.i rest ∧
        L'.logP = L.logP ++ K.map (fun k => argRec (O.vOf k.2.1) (.int k.1) (.ref 0)) ∧
        L'.stg = (if K = [] then L.stg else .nonNil)
  | [], L => by
    simp only [List.length_nil, planPure, planSpec]
    exact ⟨L, rfl, by simp [logVOf]⟩
  | sc :: rest, L => by
    simp only [List.length_cons, planPure, planSpec]
    by_cases hv : O.vErr L.nv = true
    · simp only [hv, if_true]
      exact ⟨_, rfl⟩
    · simp only [hv, Bool.false_eq_true, if_false]
      by_cases hk : keepStage O.start now (L.total + O.durOf (O.vOf L.nv)) = true
      · simp only [hk, if_true]
        by_cases hp : O.pErr L.np = true
        · simp only [hp, if_true]
          exact ⟨_, rfl⟩
        · simp only [hp, Bool.false_eq_true, if_false]
          have ih := planSpec_pure O a0 now cf vcf all c1 c2 logC rest
            { err := Val.nil, stg := Val.nonNil, total := L.total + O.durOf (O.vOf L.nv), i := L.i + 1, idx := Val.int L.i,
              sc := sc, vs := O.vOf L.nv, ss := optInt O.start, ps := O.pOf L.np, nv := L.nv + 1, np := L.np + 1,
              kept := L.kept ++ [O.pOf L.np], logV := L.logV ++ [argRec sc (Val.int L.i) (Val.ref 0)],
              logP := L.logP ++ [argRec (O.vOf L.nv) (Val.int L.i) (Val.ref 0)] }
          simp only at ih
          rcases hr : planPure O now rest.length (L.i + 1) (L.nv + 1) (L.np + 1) (L.total + O.durOf (O.vOf L.nv)) with _ | ⟨T, K⟩
          · rw [hr] at ih
            simpa using ih
          · rw [hr] at ih
            obtain ⟨L', h1, h2, h3, h4, h5, h6, h7, h8⟩ := ih
            refine ⟨L', h1, h2, ?_, ?_, ?_, ?_, ?_, ?_⟩
            · simp [h3]
            · simp [h4]; omega
            · simp [h5]; omega
            · simp [h6, logVOf]
            · simp [h7]
            · simp [h8]
      · simp only [hk, Bool.false_eq_true, if_false]
        have ih := planSpec_pure O a0 now cf vcf all c1 c2 logC rest
          { err := Val.nil, stg := L.stg, total := L.total + O.durOf (O.vOf L.nv), i := L.i + 1, idx := Val.int L.i,
            sc := sc, vs := O.vOf L.nv, ss := optInt O.start, ps := L.ps, nv := L.nv + 1, np := L.np,
            kept := L.kept, logV := L.logV ++ [argRec sc (Val.int L.i) (Val.ref 0)], logP := L.logP }
        simp only at ih
        rcases hr : planPure O now rest.length (L.i + 1) (L.nv + 1) L.np (L.total + O.durOf (O.vOf L.nv)) with _ | ⟨T, K⟩
        · rw [hr] at ih
          simpa using ih
        · rw [hr] at ih
          obtain ⟨L', h1, h2, h3, h4, h5, h6, h7, h8⟩ := ih
          refine ⟨L', h1, h2, h3, ?_, h5, ?_, h7, h8⟩
          · simp [h4]; omega
          · simp [h6, logVOf]

/-- the cumulative duration after `n` more stages -/
def cumTotal (O : PlanOracle F) : Nat → Nat → Int → Int
  | 0, _, t => t
  | n + 1, nv, t => cumTotal O n (nv + 1) (t + O.durOf (O.vOf nv))

/-- the skip rule alone: the (position, validation call) of the stages whose scheduled end is after `now` -/
def keptPure (O : PlanOracle F) (now : Int) : Nat → Int → Nat → Int → List (Int × Nat)
  | 0, _, _, _ => []
  | n + 1, i, nv, t =>
    (if keepStage O.start now (t + O.durOf (O.vOf nv)) then [(i, nv)] else []) ++
      keptPure O now n (i + 1) (nv + 1) (t + O.durOf (O.vOf nv))

/-- a plan that is produced: the total is the sum of *all* stage durations, the kept stages are exactly those the skip rule
keeps, in file order, and the j-th kept stage is what the j-th parse returned -/
theorem planPure_some (O : PlanOracle F) (now : Int) : ∀ (n : Nat) (i : Int) (nv np : Nat) (t T : Int) (K : List (Int × Nat × Nat)),
    planPure O now n i nv np t = some (T, K) →
      T = cumTotal O n nv t ∧ K.map (fun k => (k.1, k.2.1)) = keptPure O now n i nv t ∧
      K.map (fun k => k.2.2) = List.range' np K.length
  | 0, i, nv, np, t, T, K, h => by
    simp [planPure] at h
    obtain ⟨rfl, rfl⟩ := h
    simp [cumTotal, keptPure]
  | n + 1, i, nv, np, t, T, K, h => by
    simp only [planPure] at h
    by_cases hv : O.vErr nv = true
    · simp [hv] at h
    · simp only [hv, Bool.false_eq_true, if_false] at h
      by_cases hk : keepStage O.start now (t + O.durOf (O.vOf nv)) = true
      · simp only [hk, if_true] at h
        by_cases hp : O.pErr np = true
        · simp [hp] at h
        · simp only [hp, Bool.false_eq_true, if_false, Option.map_eq_some_iff] at h
          obtain ⟨⟨T', K'⟩, hr, he⟩ := h
          simp at he
          obtain ⟨rfl, rfl⟩ := he
          obtain ⟨a, b, c⟩ := planPure_some O now n (i + 1) (nv + 1) (np + 1) _ _ _ hr
          simp [cumTotal, keptPure, hk, a, b, c, List.range'_succ]
      · simp only [hk, Bool.false_eq_true, if_false] at h
        obtain ⟨a, b, c⟩ := planPure_some O now n (i + 1) (nv + 1) np _ _ _ h
        simp [cumTotal, keptPure, hk, a, b, c]

/-- no error anywhere: a plan is produced -/
theorem planPure_isSome (O : PlanOracle F) (now : Int) (hv : ∀ k, O.vErr k = false) (hp : ∀ k, O.pErr k = false) :
    ∀ (n : Nat) (i : Int) (nv np : Nat) (t : Int), (planPure O now n i nv np t).isSome
  | 0, _, _, _, _ => by simp [planPure]
  | n + 1, i, nv, np, t => by
    simp only [planPure, hv, hp, Bool.false_eq_true, if_false]
    split
    · simp [planPure_isSome O now hv hp n]
    · exact planPure_isSome O now hv hp n _ _ _ _

/-- … and without a stage-start every stage is kept -/
theorem keptPure_all (O : PlanOracle F) (now : Int) (h : O.start = none) : ∀ (n : Nat) (i : Int) (nv : Nat) (t : Int),
    keptPure O now n i nv t = (List.range n).map fun (k : Nat) => (i + (k : Int), nv + k)
  | 0, _, _, _ => by simp [keptPure]
  | n + 1, i, nv, t => by
    simp [keptPure, keepStage, h, keptPure_all O now h n, List.range_succ_eq_map, Int.add_assoc, Nat.add_assoc,
      Int.add_comm 1, Nat.add_comm 1]

/-! #### the whole function -/

/-- `ParseConfigFile` with its locals declared (any values: each is assigned before it is read), the slice
`validatedConfigFile.Stages` holding the stages of what `validateCommonFields` returns, and `stages` empty -/
def planInit (a0 : Val F) (now : Int) (l : List (Val F)) (all : List (Val F)) (c1 c2 nv np : Nat)
    (logC logV logP : List (PRec F)) : State F :=
  ⟨[("arg0", a0), ("arg1", .int now), ("configFile", l.getD 0 .nil), ("err", l.getD 1 .nil), ("validatedConfigFile", l.getD 2 .nil),
    ("stages", l.getD 3 .nil), ("stagesTotalDuration", l.getD 4 .nil), ("$n0", l.getD 5 .nil), ("$i0", l.getD 6 .nil),
    ("idx", l.getD 7 .nil), ("stageConfig", l.getD 8 .nil), ("validatedStage", l.getD 9 .nil), ("stageStart", l.getD 10 .nil),
    ("parsedStage", l.getD 11 .nil)],
   [("yaml.Unmarshal", c1), ("validateCommonFields", c2), ("validateCommonFieldsOfStage", nv), ("parseStage", np)], [], [],
   [("validatedConfigFile.Stages", precs all), ("validateCommonFields", logC), ("stages", []),
    ("validateCommonFieldsOfStage", logV), ("parseStage", logP)]⟩

/-- what a caller sees: the returned pair, the fields of the returned plan, the kept stages, the calls made on stages -/
def obsPlan (r : Except String (List (Val F) × State F)) (xs : List String) :
    Option (List (Val F) × List (Option (Val F)) × List (PRec F) × List (PRec F) × List (PRec F)) :=
  match r with
  | .ok (vs, s) => some (vs, xs.map s.get, (lookup "stages" s.arrs).getD [], (lookup "validateCommonFieldsOfStage" s.arrs).getD [],
      (lookup "parseStage" s.arrs).getD [])
  | .error _ => none

def retFields : List String := ["$ret.Scenario", "$ret.stagesTotalDuration", "$ret.MaxDuration", "$ret.Concurrency",
  "$ret.MaxIterations", "$ret.maxFailures", "$ret.maxFailuresRate", "$ret.IgnoreDropped"]

/-- the locals at the head of the loop -/
def planL0 (l : List (Val F)) (nv np : Nat) (logV logP : List (PRec F)) : PL F :=
  { err := .nil, stg := .nil, total := 0, i := 0, idx := l.getD 7 .nil, sc := l.getD 8 .nil, vs := l.getD 9 .nil,
    ss := l.getD 10 .nil, ps := l.getD 11 .nil, nv := nv, np := np, kept := [], logV := logV, logP := logP }

/-- **the regenerated `ParseConfigFile`, a plan is produced**: the stages are validated in file order (each with its
position), the plan's total duration is the sum of all stage durations, the kept stages are those of the skip rule
(`planPure_some`), in file order, each parsed from its validated form with its position, and every limit of the plan is
the same-named limit of the validated configuration. -/
theorem file_ParseConfigFile_ok (O : PlanOracle F) (a0 : Val F) (now : Int) (l all : List (Val F)) (c1 c2 nv np : Nat)
    (logC logV logP : List (PRec F)) (fuel : Nat) (hf : all.length + 1 ≤ fuel) (hy : O.yErr = false) (hc : O.cErr = false)
    (T : Int) (K : List (Int × Nat × Nat)) (hp : planPure O now all.length 0 nv np 0 = some (T, K)) :
    obsPlan (runFn (planExt O) fuel file_ParseConfigFile (planInit a0 now l all c1 c2 nv np logC logV logP)) retFields =
      some ([.nonNil, .nil],
            [some (O.proj "Scenario" O.vcf), some (.int T), some (O.proj "MaxDuration" (O.proj "Limits" O.vcf)),
             some (O.proj "Concurrency" (O.proj "Limits" O.vcf)), some (O.proj "MaxIterations" (O.proj "Limits" O.vcf)),
             some (O.proj "MaxFailures" (O.proj "Limits" O.vcf)), some (O.proj "MaxFailuresRate" (O.proj "Limits" O.vcf)),
             some (O.proj "IgnoreDropped" (O.proj "Limits" O.vcf))],
            precs (K.map fun k => O.pOf k.2.2), logV ++ logVOf 0 all,
            logP ++ K.map (fun k => argRec (O.vOf k.2.1) (.int k.1) (.ref 0))) := by
  have hloop := planLoop_spec O a0 now .nonNil O.vcf (c1 + 1) (c2 + 1) (logC ++ [[("0", .nonNil)]]) all []
    (planL0 l nv np logV logP) fuel hf rfl
  have hpure := planSpec_pure O a0 now .nonNil O.vcf all (c1 + 1) (c2 + 1) (logC ++ [[("0", .nonNil)]]) all (planL0 l nv np logV logP)
  simp only [planL0] at hpure hloop
  rw [hp] at hpure
  obtain ⟨L', h1, h2, h3, h4, h5, h6, h7, h8⟩ := hpure
  simp only [List.nil_append] at hloop h1
  rw [h1] at hloop
  simp [planLoop, planState, precs] at hloop
  simp [minigo, file_ParseConfigFile, planInit, planExt, retFields, obsPlan, hy, hc, precs, hloop]
  simp at h3 h6 h7
  simp [h2, h3, h6, h7]

/-- **the regenerated `ParseConfigFile`, no plan**: a decoding error, a validation error of the common fields, of any
stage, or a parse error of a kept stage is returned (`nil, err`) -/
theorem file_ParseConfigFile_err (O : PlanOracle F) (a0 : Val F) (now : Int) (l all : List (Val F)) (c1 c2 nv np : Nat)
    (logC logV logP : List (PRec F)) (fuel : Nat) (hf : all.length + 1 ≤ fuel)
    (h : O.yErr = true ∨ O.cErr = true ∨ planPure O now all.length 0 nv np 0 = none) :
    (obsPlan (runFn (planExt O) fuel file_ParseConfigFile (planInit a0 now l all c1 c2 nv np logC logV logP)) []).map (·.1) =
      some [.nil, .nonNil] := by
  by_cases hy : O.yErr = true
  · simp [minigo, file_ParseConfigFile, planInit, planExt, obsPlan, hy]
  by_cases hc : O.cErr = true
  · simp [minigo, file_ParseConfigFile, planInit, planExt, obsPlan, hy, hc]
  have hp : planPure O now all.length 0 nv np 0 = none := by
    rcases h with h | h | h
    · exact absurd h hy
    · exact absurd h hc
    · exact h
  have hloop := planLoop_spec O a0 now .nonNil O.vcf (c1 + 1) (c2 + 1) (logC ++ [[("0", .nonNil)]]) all []
    (planL0 l nv np logV logP) fuel hf rfl
  have hpure := planSpec_pure O a0 now .nonNil O.vcf all (c1 + 1) (c2 + 1) (logC ++ [[("0", .nonNil)]]) all (planL0 l nv np logV logP)
  simp only [planL0] at hpure hloop
  rw [hp] at hpure
  obtain ⟨L', h1⟩ := hpure
  simp only [List.nil_append] at hloop h1
  rw [h1] at hloop
  simp [planLoop, planState, precs] at hloop
  simp [minigo, file_ParseConfigFile, planInit, planExt, obsPlan, hy, hc, precs, hloop]

/-- the premises are satisfiable: three stages of 10 s each, stage-start 25 s before now — only the third is kept -/
example : planPure (F := Float) ⟨false, false, .ref 0, fun k => .ref k, fun k => .ref (100 + k), fun _ => false, fun _ => false,
    fun _ => 10, some (-25), fun _ v => v⟩ 0 3 0 0 0 0 = some (30, [(2, 2, 0)]) := by
  simp [planPure, keepStage]

end plan
end F1.Props.Refine
