/-
C15 (run time): the stages of a config file execute strictly one after another, each stage's parameters are in the
environment while it triggers (and nobody else's), and none of them remain set when the trigger returns — whether
it returns because every stage has run, because the run was cancelled in the middle of a stage, or because the
iteration limit was reached.
-/
import F1Verif.Model.Stages

namespace F1.Props.C15Run
open F1.Stages

theorem look_unsetVar_same (e : Env) (k : String) : look (unsetVar e k) k = none := by
  induction e with
  | nil => rfl
  | cons p rest ih =>
    obtain ⟨k', v⟩ := p
    simp only [unsetVar]
    split
    · exact ih
    · rename_i h
      simp only [look, h, if_false]
      exact ih

theorem look_unsetVar_ne (e : Env) (k k' : String) (hk : k' ≠ k) : look (unsetVar e k) k' = look e k' := by
  induction e with
  | nil => rfl
  | cons p rest ih =>
    obtain ⟨k2, v⟩ := p
    simp only [unsetVar]
    split
    · rename_i h
      subst h
      have : ¬ (k2 = k') := fun e => hk e.symm
      simp only [look, this, if_false]
      exact ih
    · simp only [look]
      split
      · rfl
      · exact ih

theorem look_setVar_same (e : Env) (k v : String) : look (setVar e k v) k = some v := by
  simp [look, setVar]

theorem look_setVar_ne (e : Env) (k v k' : String) (hk : k' ≠ k) : look (setVar e k v) k' = look e k' := by
  have : ¬ (k = k') := fun e => hk e.symm
  simp only [setVar, look, this, if_false]
  exact look_unsetVar_ne e k k' hk

theorem look_setAll_notin (ps : Params) : ∀ (e : Env) (k : String), k ∉ keys ps → look (setAll e ps) k = look e k := by
  induction ps with
  | nil => intro e k _; rfl
  | cons p rest ih =>
    intro e k hk
    simp only [keys, List.map, List.mem_cons, not_or] at hk
    simp only [setAll, List.foldl]
    have := ih (setVar e p.1 p.2) k (by simpa [keys] using hk.2)
    simp only [setAll] at this
    rw [this, look_setVar_ne e p.1 p.2 k hk.1]

theorem look_setAll_in (ps : Params) : ∀ (e : Env) (k v : String), (keys ps).Nodup → (k, v) ∈ ps →
    look (setAll e ps) k = some v := by
  induction ps with
  | nil => intro e k v _ h; cases h
  | cons p rest ih =>
    intro e k v hnd hin
    simp only [keys, List.map, List.nodup_cons] at hnd
    simp only [setAll, List.foldl]
    rcases List.mem_cons.mp hin with h | h
    · subst h
      have := look_setAll_notin rest (setVar e k v) k (by simpa [keys] using hnd.1)
      simp only [setAll] at this
      rw [this, look_setVar_same]
    · have := ih (setVar e p.1 p.2) k v (by simpa [keys] using hnd.2) h
      simpa [setAll] using this

theorem look_unsetAll_notin (ps : Params) : ∀ (e : Env) (k : String), k ∉ keys ps → look (unsetAll e ps) k = look e k := by
  induction ps with
  | nil => intro e k _; rfl
  | cons p rest ih =>
    intro e k hk
    simp only [keys, List.map, List.mem_cons, not_or] at hk
    simp only [unsetAll, List.foldl]
    have := ih (unsetVar e p.1) k (by simpa [keys] using hk.2)
    simp only [unsetAll] at this
    rw [this, look_unsetVar_ne e p.1 k hk.1]

theorem look_unsetAll_in (ps : Params) : ∀ (e : Env) (k : String), k ∈ keys ps → look (unsetAll e ps) k = none := by
  induction ps with
  | nil => intro e k h; cases h
  | cons p rest ih =>
    intro e k hk
    simp only [unsetAll, List.foldl]
    by_cases hr : k ∈ keys rest
    · have := ih (unsetVar e p.1) k hr
      simpa [unsetAll] using this
    · have hkp : k = p.1 := by
        simp only [keys, List.map, List.mem_cons] at hk
        rcases hk with h | h
        · exact h
        · exact absurd (by simpa [keys] using h) hr
      have := look_unsetAll_notin rest (unsetVar e p.1) k hr
      simp only [unsetAll] at this
      rw [this, hkp, look_unsetVar_same]

/-- none of the keys in `all` is set -/
def Clean (all : List String) (e : Env) : Prop := ∀ k ∈ all, look e k = none

/-- C15 (run time). Let `all` contain every parameter key of every stage, and let none of them be set when the
trigger starts. Then, however the run ends (`stop`, `cancelled` arbitrary):
* none of them is set when the trigger returns;
* the stages that trigger are `i, i+1, …` in file order, one after another;
* while a stage triggers, each of its parameters has its configured value and no other stage's parameter is set. -/
theorem C15_stages_env (stop cancelled : Nat → Bool) (all : List String) :
    ∀ (stages : List Params), (∀ ps ∈ stages, ∀ k ∈ keys ps, k ∈ all) → (∀ ps ∈ stages, (keys ps).Nodup) →
    ∀ (i : Nat) (e : Env), Clean all e →
      Clean all (runFrom stop cancelled stages i e).1 ∧
      ((runFrom stop cancelled stages i e).2.map (·.stage)) = List.range' i (runFrom stop cancelled stages i e).2.length ∧
      ∀ o ∈ (runFrom stop cancelled stages i e).2, o.params ∈ stages ∧
        (∀ kv ∈ o.params, look o.env kv.1 = some kv.2) ∧ (∀ k ∈ all, k ∉ keys o.params → look o.env k = none) := by
  intro stages
  induction stages with
  | nil => intro _ _ i e hc; simp [runFrom, hc]
  | cons ps rest ih =>
    intro hall hnd i e hc
    have hps_all := hall ps (List.mem_cons_self ..)
    have hps_nd := hnd ps (List.mem_cons_self ..)
    -- the environment while this stage triggers, and after its deferred clean-up
    have hduring : (∀ kv ∈ ps, look (setAll e ps) kv.1 = some kv.2) ∧
        (∀ k ∈ all, k ∉ keys ps → look (setAll e ps) k = none) := by
      refine ⟨fun kv hkv => look_setAll_in ps e kv.1 kv.2 hps_nd (by simpa using hkv), fun k hk hn => ?_⟩
      rw [look_setAll_notin ps e k hn]; exact hc k hk
    have hafter : Clean all (unsetAll (setAll e ps) ps) := by
      intro k hk
      by_cases hin : k ∈ keys ps
      · exact look_unsetAll_in ps _ k hin
      · rw [look_unsetAll_notin ps _ k hin]; exact hduring.2 k hk hin
    simp only [runFrom]
    split
    · simp [hc]
    · split
      · refine ⟨hafter, by simp [List.range'], ?_⟩
        intro o ho
        simp only [List.mem_singleton] at ho
        subst ho
        exact ⟨List.mem_cons_self .., hduring.1, hduring.2⟩
      · obtain ⟨h1, h2, h3⟩ := ih (fun q hq => hall q (List.mem_cons_of_mem _ hq))
          (fun q hq => hnd q (List.mem_cons_of_mem _ hq)) (i + 1) _ hafter
        refine ⟨h1, ?_, ?_⟩
        · simp only [List.map_cons, List.length_cons]
          rw [h2]
          simp [List.range'_succ]
        · intro o ho
          rcases List.mem_cons.mp ho with h | h
          · subst h
            exact ⟨List.mem_cons_self .., hduring.1, hduring.2⟩
          · obtain ⟨a, b, c⟩ := h3 o h
            exact ⟨List.mem_cons_of_mem _ a, b, c⟩

/-- the statement for a whole trigger (`run` starts at stage 0) -/
theorem C15_run_env (stop cancelled : Nat → Bool) (stages : List Params) (all : List String)
    (hall : ∀ ps ∈ stages, ∀ k ∈ keys ps, k ∈ all) (hnd : ∀ ps ∈ stages, (keys ps).Nodup) (e : Env) (hc : Clean all e) :
    Clean all (run stop cancelled stages e).1 ∧
    ∀ o ∈ (run stop cancelled stages e).2, o.params ∈ stages ∧
      (∀ kv ∈ o.params, look o.env kv.1 = some kv.2) ∧ (∀ k ∈ all, k ∉ keys o.params → look o.env k = none) := by
  obtain ⟨h1, _, h3⟩ := C15_stages_env stop cancelled all stages hall hnd 0 e hc
  exact ⟨h1, h3⟩

/-- even without a clean start: the parameters of every stage that triggered are unset afterwards, unless a later
stage set the same key again and … also unset it. Stated for the last stage that ran: its keys are unset. -/
theorem C15_stage_cleans_up (e : Env) (ps : Params) : ∀ k ∈ keys ps, look (unsetAll (setAll e ps) ps) k = none :=
  fun k hk => look_unsetAll_in ps _ k hk

-- non-vacuity: two stages sharing a key, the run cancelled in the second
example : (run (fun _ => false) (fun i => i == 1) [[("A", "1"), ("S", "x")], [("B", "2"), ("S", "x")], [("C", "3")]] [("HOME", "/")]).1
    = [("HOME", "/")] := by decide

end F1.Props.C15Run
