/- C17 / C01 / C06 — the regenerated `ActiveScenario.Run`, `Setup` and `RecordDroppedIteration`: what is measured, what is
recorded where, and in which order relative to the body, the panic handler and the iteration's cleanups (see
Props/RefineBase.lean for what a refinement theorem says and assumes) -/
import F1Verif.Props.RefineBase

namespace F1.Props.Refine
open F1.MiniGo F1.Generated.MG

/-- the monotonic clock is an external: its `k`-th reading is `clock k`; `metrics.Result(b)` is a conversion -/
def runExt (clock : Nat → Int) (panics : Bool := false) : Ext Rat := fun f k args =>
  if f = "xtime.NanoTime" then .int (clock k)
  else if f = "metrics.Result" then (match args with | [v] => v | _ => .nil)
  else if f = "$dyn.panics" then .bool panics
  else .nil

def runState (name : Nat) (failed : Bool) : State Rat :=
  State.ofVars [("recv.scenario.Name", .ref name), ("arg0.t", .nonNil), ("arg0.t.Failed()", .bool failed),
    ("recv.scenario.RunFn", .ref 7)]

/-- **C17 (what is measured) on the code as it is now.** One iteration through the regenerated `ActiveScenario.Run`:
the clock is read, then the body runs inside its panic handler, then the clock is read again; the duration handed to the
exported metric *and* to the progress statistics is the difference of exactly those two readings, with the outcome
`T.Failed()` reported after the body; both records happen before the iteration's cleanups (`teardown` is last).
**C07 (a panic is confined)**: when the body panics (`panics`), the deferred `CheckResults` — which calls `recover` —
ends the panic inside the inner block, and everything after it happens exactly as for a body that returned: second clock
reading, both records, the cleanups; `Run` itself returns normally, so the worker goes on. -/
theorem active_Run_window (clock : Nat → Int) (name : Nat) (failed panics : Bool) :
    traceOf (runFn (runExt clock panics) 0 active_Run (runState name failed)) =
      ["xtime.NanoTime", "recv.scenario.RunFn(…)", "testing.CheckResults", "<recover>"] ++
      (if panics then ["<recovered>"] else []) ++
      ["xtime.NanoTime", "recv.m.RecordIterationResult(…)", "recv.progress.Record(…)", "arg0.teardown"] ∧
    observe (runFn (runExt clock panics) 0 active_Run (runState name failed))
        ["$arg.recv.m.RecordIterationResult.0", "$arg.recv.m.RecordIterationResult.1", "$arg.recv.m.RecordIterationResult.2",
         "$arg.recv.progress.Record.0", "$arg.recv.progress.Record.1"] =
      some ([], [some (.ref name), some (.bool failed), some (.int (clock 1 - clock 0)),
                 some (.bool failed), some (.int (clock 1 - clock 0))]) ∧
    -- the body was called once, with the iteration's handle
    (match runFn (runExt clock panics) 0 active_Run (runState name failed) with
     | .ok (_, s) => lookup "$dyn" s.arrs = some [[("0", Val.ref 7), ("1", Val.nonNil)]]
     | .error _ => False) := by
  cases panics <;> simp [minigo, active_Run, runState, runExt]

def setupState (name : Nat) (failed : Bool) : State Rat :=
  State.ofVars [("recv.scenario.Name", .ref name), ("recv.t", .nonNil), ("recv.t.Failed()", .bool failed),
    ("recv.scenario.RunFn", .nil), ("recv.scenario.ScenarioFn", .ref 8)]

/-- `Setup`: the scenario function runs once inside its panic handler, between two clock readings; one setup record with
the outcome of the setup handle and that duration -/
theorem active_Setup_window (clock : Nat → Int) (name : Nat) (failed panics : Bool) :
    traceOf (runFn (runExt clock panics) 0 active_Setup (setupState name failed)) =
      ["xtime.NanoTime", "recv.scenario.ScenarioFn(…)", "testing.CheckResults", "<recover>"] ++
      (if panics then ["<recovered>"] else []) ++ ["xtime.NanoTime", "recv.m.RecordSetupResult(…)"] ∧
    observeC (runFn (runExt clock panics) 0 active_Setup (setupState name failed))
        ["$arg.recv.m.RecordSetupResult.0", "$arg.recv.m.RecordSetupResult.1", "$arg.recv.m.RecordSetupResult.2"]
        ["$dyn"] =
      some ([], [some (.ref name), some (.bool failed), some (.int (clock 1 - clock 0))], [1]) ∧
    -- a setup that panics leaves no iteration function behind
    observe (runFn (runExt clock panics) 0 active_Setup (setupState name failed)) ["recv.scenario.RunFn"] =
      some ([], [some (if panics then .nil else runExt clock panics "$dyn" 0 [.int 0, .ref 8, .nonNil])]) := by
  cases panics <;> simp [minigo, active_Setup, setupState, runExt]

/-- a dropped iteration is recorded once in the metric and once in the progress statistics, as dropped, with no duration -/
theorem active_RecordDropped_refines (name : Nat) :
    traceOf (runFn (runExt fun _ => 0) 0 active_RecordDropped (State.ofVars [("recv.scenario.Name", .ref name),
        ("metrics.DroppedResult", .ref 2), ("instantDuration", .int 0)])) =
      ["recv.m.RecordIterationResult(…)", "recv.progress.Record(…)"] ∧
    observe (runFn (runExt fun _ => 0) 0 active_RecordDropped (State.ofVars [("recv.scenario.Name", .ref name),
        ("metrics.DroppedResult", .ref 2), ("instantDuration", .int 0)]))
        ["$arg.recv.m.RecordIterationResult.1", "$arg.recv.m.RecordIterationResult.2", "$arg.recv.progress.Record.0",
         "$arg.recv.progress.Record.1"] = some ([], [some (.ref 2), some (.int 0), some (.ref 2), some (.int 0)]) := by
  simp [minigo, active_RecordDropped]

end F1.Props.Refine
