/- C12 — the regenerated closures of `withRandomDistribution` / `withRegularDistribution` refine the distribution models (see Props/RefineBase.lean for what a refinement theorem says and assumes) -/
import F1Verif.Props.RefineBase
import F1Verif.Model.Distribution

namespace F1.Props.Refine
open F1.MiniGo F1.Generated.MG

/-! ### C12 — the closures of `withRandomDistribution` / `withRegularDistribution` -/

section dist
open F1.Dist
variable {F : Type} [FloatLike F]

/-- the externals of the distributed rate functions: the underlying rate function (`arg1`) returns `rates k` on its
`k`-th call; the random source (`arg2`) returns `rand k n` on its `k`-th call, `Intn(n)` -/
def distExt (rates : Nat → Int) (rand : Nat → Int → Int) : Ext F := fun f k args =>
  if f = "arg1" then .int (rates k)
  else if f = "arg2" then (match args with | [.int n] => .int (rand k n) | _ => .nil)
  else .nil

/-! ### random distribution (integers only: the model is the code) -/

def rndState (N : Nat) (s : Rnd) (now : Int) : State F :=
  ⟨[("remainingSteps", .int s.remaining), ("remainingRate", .int s.remRate), ("tickSteps", .int N), ("carg0", .int now)],
   [("arg1", s.evals), ("arg2", s.draws)], [], [], []⟩

/-- one call of the regenerated closure of `withRandomDistribution` is `rndStep`: same output, same remaining rate and
steps, same number of evaluations of the underlying rate and of draws from the random source (`N ≥ 1`: the closure
only exists for an interval above 100 ms) -/
theorem dist_random_body_refines (N : Nat) (h1 : 1 ≤ N) (rates : Nat → Int) (rand : Nat → Int → Int) (s : Rnd) (now : Int) :
    observeC (F := F) (runFn (distExt rates rand) 0 dist_random_body (rndState N s now))
        ["remainingSteps", "remainingRate"] ["arg1", "arg2"] =
      some ([.int (rndStep N rates rand s).2],
            [some (.int (rndStep N rates rand s).1.remaining), some (.int (rndStep N rates rand s).1.remRate)],
            [(rndStep N rates rand s).1.evals, (rndStep N rates rand s).1.draws]) := by
  by_cases h0 : s.remaining = 0 <;> simp [minigo, dist_random_body, rndState, distExt, rndStep, h0]
  all_goals minigo_close

/-! ### regular distribution -/

/-- one sub-tick of the regular distribution as written: the float operations of the source, one for one -/
def regStepG (N : Nat) (rate : Int) (acc : F) : F × Int :=
  let acc1 : F := FloatLike.add acc (FloatLike.div (FloatLike.ofInt rate) (FloatLike.ofInt (N : Int)))
  let acc2 : F := FloatLike.div (FloatLike.ceil (FloatLike.mul acc1 (FloatLike.ofInt 10000000))) (FloatLike.ofInt 10000000)
  if FloatLike.lt acc2 (FloatLike.ofInt 1 : F) then (acc2, 0)
  else (FloatLike.sub acc2 (FloatLike.ofInt (FloatLike.trunc acc2)), FloatLike.trunc acc2)

def regStateG (N : Nat) (rate : Int) (acc : F) (remaining evals : Nat) (now : Int) : State F :=
  ⟨[("remainingSteps", .int remaining), ("rate", .int rate), ("accRate", .flt acc),
    ("tickSteps", .int N), ("carg0", .int now)],
   [("arg1", evals)], [], [], []⟩

/-- step 1: the regenerated closure of `withRegularDistribution`, in any arithmetic, is the reload test followed by
`regStepG`; the underlying rate is evaluated exactly when a cycle starts -/
theorem dist_regular_body_refines (N : Nat) (rates : Nat → Int) (rate : Int) (acc : F) (remaining evals : Nat) (now : Int) :
    observeC (runFn (distExt rates fun _ _ => 0) 0 dist_regular_body (regStateG N rate acc remaining evals now))
        ["remainingSteps", "rate", "accRate"] ["arg1"] =
      (let rate' := if remaining = 0 then rates evals else rate
       let acc' : F := if remaining = 0 then FloatLike.ofLit 0 (-1) else acc
       let rem' : Int := if remaining = 0 then N else remaining
       let r := regStepG N rate' acc'
       some ([.int r.2], [some (.int (rem' - 1)), some (.int rate'), some (.flt r.1)],
             [if remaining = 0 then evals + 1 else evals])) := by
  by_cases h0 : remaining = 0 <;>
    simp [minigo, dist_regular_body, regStateG, distExt, h0, regStepG]
  all_goals (split <;> simp_all)


/-! #### the part of `withRegularDistribution` / `withRandomDistribution` before the closure -/

/-- an interval of at most 100 ms: the rate function and the interval are handed back unchanged -/
theorem dist_regular_init_passthrough (iv : Int) (h : iv ≤ subTickNs) :
    observe (runFn (F := F) (fun _ _ _ => .nil) 0 dist_regular_init (State.ofVars [("arg0", .int iv), ("arg1", .nonNil)])) [] =
      some ([.int iv, .nonNil], []) := by
  simp [minigo, dist_regular_init, subTickNs] at *
  simp [h]

/-- otherwise the closure starts from: no sub-ticks left (so the first call evaluates the rate), a zero accumulator,
`tickSteps = ⌊interval/100 ms⌋` (in whole milliseconds, as `Dist.tickSteps`), and the new interval is 100 ms -/
theorem dist_regular_init_state (iv : Int) (h : ¬ iv ≤ subTickNs) :
    observe (runFn (F := F) (fun _ _ _ => .nil) 0 dist_regular_init (State.ofVars [("arg0", .int iv), ("arg1", .nonNil)]))
      ["distributedIterationDuration", "rate", "accRate", "remainingSteps", "tickSteps"] =
      some ([], [some (.int subTickNs), some (.int 0), some (.flt (FloatLike.ofLit 0 (-1))), some (.int 0),
                 some (.int (tickSteps iv))]) := by
  simp [minigo, dist_regular_init, subTickNs, tickSteps] at *
  simp [h]

theorem dist_random_init_passthrough (iv : Int) (h : iv ≤ subTickNs) :
    observe (runFn (F := F) (fun _ _ _ => .nil) 0 dist_random_init (State.ofVars [("arg0", .int iv), ("arg1", .nonNil),
      ("arg2", .nonNil)])) [] = some ([.int iv, .nonNil], []) := by
  simp [minigo, dist_random_init, subTickNs] at *
  simp [h]

theorem dist_random_init_state (iv : Int) (h : ¬ iv ≤ subTickNs) :
    observe (runFn (F := F) (fun _ _ _ => .nil) 0 dist_random_init (State.ofVars [("arg0", .int iv), ("arg1", .nonNil),
      ("arg2", .nonNil)])) ["distributedIterationDuration", "remainingRate", "remainingSteps", "tickSteps"] =
      some ([], [some (.int subTickNs), some (.int 0), some (.int 0), some (.int (tickSteps iv))]) := by
  simp [minigo, dist_random_init, subTickNs, tickSteps] at *
  simp [h]

end dist


end F1.Props.Refine
