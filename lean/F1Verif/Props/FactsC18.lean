/-
C18 — regenerated facts: the anchored functions still read as the model of C18 assumes.
`Generated.*` is rewritten from /repo's working tree on every run; `Expected.*` is what the model was written against.
-/
import F1Verif.Generated.Facts
import F1Verif.Expected
namespace F1.Props.FactsC18

theorem fact_runner_Start : F1.Generated.skel_runner_Start = F1.Expected.skel_runner_Start := by rfl
theorem fact_runner_Stop : F1.Generated.skel_runner_Stop = F1.Expected.skel_runner_Stop := by rfl
theorem fact_runner_Restart : F1.Generated.skel_runner_Restart = F1.Expected.skel_runner_Restart := by rfl
theorem fact_schedules_start : F1.Generated.skel_schedules_start = F1.Expected.skel_schedules_start := by rfl

end F1.Props.FactsC18
