/-
C18 — regenerated facts: the anchored functions still read as the model of C18 assumes.
`Generated.*` is rewritten from /repo's working tree on every run; `Expected.*` is what the model was written against.
-/
import F1Verif.Generated.Facts
import F1Verif.Expected
namespace F1.Props.FactsC18

-- (schedules_start, schedules_currentFrequency: re-proved semantically on the regenerated MiniGo programs, see Props/Refine*.lean)

theorem fact_runner_Start : F1.Generated.skel_runner_Start = F1.Expected.skel_runner_Start := by rfl
theorem fact_runner_Stop : F1.Generated.skel_runner_Stop = F1.Expected.skel_runner_Stop := by rfl
theorem fact_runner_Restart : F1.Generated.skel_runner_Restart = F1.Expected.skel_runner_Restart := by rfl
theorem fact_runner_New : F1.Generated.skel_runner_New = F1.Expected.skel_runner_New := by rfl
theorem fact_schedules_new : F1.Generated.skel_schedules_new = F1.Expected.skel_schedules_new := by rfl
theorem fact_schedules_startFirst : F1.Generated.skel_schedules_startFirst = F1.Expected.skel_schedules_startFirst := by rfl
theorem fact_schedules_startNext : F1.Generated.skel_schedules_startNext = F1.Expected.skel_schedules_startNext := by rfl
theorem fact_schedules_stop : F1.Generated.skel_schedules_stop = F1.Expected.skel_schedules_stop := by rfl
theorem fact_schedules_timeUntilNextSchedule : F1.Generated.skel_schedules_timeUntilNextSchedule = F1.Expected.skel_schedules_timeUntilNextSchedule := by rfl
theorem fact_schedules_currentScheduleTicker : F1.Generated.skel_schedules_currentScheduleTicker = F1.Expected.skel_schedules_currentScheduleTicker := by rfl
theorem fact_run_newProgressRunner : F1.Generated.skel_run_newProgressRunner = F1.Expected.skel_run_newProgressRunner := by rfl
theorem fact_run_Do : F1.Generated.skel_run_Do = F1.Expected.skel_run_Do := by rfl

end F1.Props.FactsC18
