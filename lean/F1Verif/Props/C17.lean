/-
C17 — iteration durations are aggregated exactly (the aggregator half; the measurement
half is the statement-order fact `C17_window` below plus whole-run monitoring).
-/
import F1Verif.Model.Progress

namespace F1.Props.C17
open F1.Progress

def Pos (l : List Int) : Prop := ∀ x ∈ l, 0 < x

/-- `a` is exactly the aggregate of the durations in `l`: their sum, their number, the least and
the greatest of them (0 for both when there are none). -/
structure Rep (l : List Int) (a : Acc) : Prop where
  sum : a.sum = l.sum
  count : a.count = l.length
  emp : l = [] → a.min = 0 ∧ a.max = 0
  mem : l ≠ [] → a.min ∈ l ∧ a.max ∈ l
  le : ∀ x ∈ l, a.min ≤ x ∧ x ≤ a.max

theorem rep_empty : Rep [] Acc.empty := ⟨rfl, rfl, fun _ => ⟨rfl, rfl⟩, fun h => absurd rfl h, by simp⟩

theorem rep_add {l : List Int} {a : Acc} (h : Rep l a) (hp : Pos l) {ns : Int} (hn : 0 < ns) :
    Rep (l ++ [ns]) (a.add ns) := by
  by_cases hl : l = []
  · subst hl
    obtain ⟨h0, h1⟩ := h.emp rfl
    refine ⟨?_, ?_, fun h => by simp at h, fun _ => ?_, ?_⟩
    · simp [Acc.add, h.sum]
    · simp [Acc.add, h.count]
    · simp [Acc.add, h0, h1, hn]
    · intro x hx
      simp at hx; subst hx
      simp [Acc.add, h0, h1, hn]
  · obtain ⟨m0, m1⟩ := h.mem hl
    have hmin : 0 < a.min := hp _ m0
    refine ⟨?_, ?_, fun h => by simp at h, fun _ => ?_, ?_⟩
    · simp [Acc.add, h.sum]
    · simp [Acc.add, h.count]
    · unfold Acc.add; simp only
      constructor
      · split
        · simp
        · exact List.mem_append_left _ m0
      · split
        · simp
        · exact List.mem_append_left _ m1
    · intro x hx
      unfold Acc.add; simp only
      rcases List.mem_append.mp hx with hx | hx
      · have := h.le x hx
        constructor
        · split <;> omega
        · split <;> omega
      · simp at hx; subst hx
        have hne : ¬ a.min = 0 := by omega
        constructor
        · split <;> omega
        · split <;> omega

theorem rep_update {l₁ l₂ : List Int} {i o : Acc} (hi : Rep l₁ i) (ho : Rep l₂ o)
    (p₁ : Pos l₁) (p₂ : Pos l₂) : Rep (l₁ ++ l₂) (i.update o) := by
  have hsum : (i.update o).sum = (l₁ ++ l₂).sum := by simp [Acc.update, hi.sum, ho.sum]
  have hcount : (i.update o).count = ((l₁ ++ l₂).length : Int) := by
    simp [Acc.update, hi.count, ho.count]
  by_cases h1 : l₁ = []
  · subst h1
    obtain ⟨a0, a1⟩ := hi.emp rfl
    by_cases h2 : l₂ = []
    · subst h2
      obtain ⟨b0, b1⟩ := ho.emp rfl
      exact ⟨hsum, hcount, fun _ => by simp [Acc.update, a0, a1, b0, b1], fun h => by simp at h, by simp⟩
    · obtain ⟨m0, m1⟩ := ho.mem h2
      have hmax : 0 < o.max := p₂ _ m1
      refine ⟨hsum, hcount, fun h => by simp at h; exact absurd h h2, fun _ => ?_, ?_⟩
      · simp [Acc.update, a0, a1, hmax, m0, m1]
      · intro x hx
        simp at hx
        have := ho.le x hx
        simp [Acc.update, a0, a1, hmax]; omega
  · obtain ⟨n0, n1⟩ := hi.mem h1
    have imin : 0 < i.min := p₁ _ n0
    by_cases h2 : l₂ = []
    · subst h2
      obtain ⟨b0, b1⟩ := ho.emp rfl
      have imax : 0 < i.max := p₁ _ n1
      refine ⟨hsum, hcount, fun h => by simp at h; exact absurd h h1, fun _ => ?_, ?_⟩
      · have : ¬ i.min = 0 := by omega
        have : ¬ i.max < 0 := by omega
        simp [Acc.update, *]
      · intro x hx
        simp at hx
        have := hi.le x hx
        have : ¬ i.min = 0 := by omega
        have : ¬ i.max < 0 := by omega
        simp [Acc.update, *] <;> omega
    · obtain ⟨m0, m1⟩ := ho.mem h2
      have omin : 0 < o.min := p₂ _ m0
      refine ⟨hsum, hcount, fun h => by simp at h; exact absurd h.1 h1, fun _ => ?_, ?_⟩
      · unfold Acc.update; simp only
        constructor
        · split
          · exact List.mem_append_right _ m0
          · exact List.mem_append_left _ n0
        · split
          · exact List.mem_append_right _ m1
          · exact List.mem_append_left _ n1
      · intro x hx
        unfold Acc.update; simp only
        rcases List.mem_append.mp hx with hx | hx
        · have := hi.le x hx
          constructor
          · split <;> omega
          · split <;> omega
        · have := ho.le x hx
          constructor
          · split <;> omega
          · split <;> omega

/-! ### what a snapshot says about the durations it covers -/

structure Covers (l : List Int) (s : Snap) : Prop where
  count : s.count = l.length
  emp : l = [] → s.avg = 0 ∧ s.min = 0 ∧ s.max = 0
  avg : l ≠ [] → s.avg = l.sum.tdiv l.length
  mem : l ≠ [] → s.min ∈ l ∧ s.max ∈ l
  le : ∀ x ∈ l, s.min ≤ x ∧ x ≤ s.max

theorem covers_of_rep {l : List Int} {a : Acc} (h : Rep l a) : Covers l a.snap := by
  refine ⟨h.count, ?_, ?_, h.mem, h.le⟩
  · intro hl
    subst hl
    obtain ⟨a0, a1⟩ := h.emp rfl
    have : a.count = 0 := by simpa using h.count
    simp [Acc.snap, this, a0, a1]
  · intro hl
    have : 0 < l.length := List.length_pos_iff.mpr hl
    have hc : ¬ a.count = 0 := by rw [h.count]; omega
    simp [Acc.snap, h.sum, h.count, hl]

theorem sum_bounds (l : List Int) (m M : Int) (h : ∀ x ∈ l, m ≤ x ∧ x ≤ M) :
    m * l.length ≤ l.sum ∧ l.sum ≤ M * l.length := by
  induction l with
  | nil => simp
  | cons x xs ih =>
    have hx := h x (by simp)
    have := ih (fun y hy => h y (List.mem_cons_of_mem _ hy))
    simp only [List.sum_cons, List.length_cons]
    have e1 : m * ((xs.length + 1 : Nat) : Int) = m * xs.length + m := by
      rw [Int.natCast_add, Int.mul_add]; simp
    have e2 : M * ((xs.length + 1 : Nat) : Int) = M * xs.length + M := by
      rw [Int.natCast_add, Int.mul_add]; simp
    rw [e1, e2]; omega

/-- `min ≤ mean ≤ max` whenever the count is positive -/
theorem C17_min_le_mean_le_max {l : List Int} {s : Snap} (h : Covers l s) (hp : Pos l) (hl : l ≠ []) :
    s.min ≤ s.avg ∧ s.avg ≤ s.max := by
  have hlen : (0 : Int) < l.length := by
    have : 0 < l.length := List.length_pos_iff.mpr hl
    omega
  obtain ⟨b1, b2⟩ := sum_bounds l s.min s.max h.le
  have hmin : 0 < s.min := hp _ (h.mem hl).1
  have hs : 0 ≤ l.sum := by
    have : 0 ≤ s.min * (l.length : Int) := Int.mul_nonneg (by omega) (by omega)
    omega
  rw [h.avg hl, Int.tdiv_eq_ediv_of_nonneg hs]
  constructor
  · exact (Int.le_ediv_iff_mul_le hlen).mpr b1
  · apply Int.ediv_le_of_le_mul hlen b2


/-! ### `Covers` determines the snapshot, and the driver's reference aggregate satisfies it -/

theorem foldl_min_spec (xs : List Int) (x : Int) :
    xs.foldl min x ∈ x :: xs ∧ ∀ y ∈ x :: xs, xs.foldl min x ≤ y := by
  induction xs generalizing x with
  | nil => simp
  | cons a as ih =>
    obtain ⟨m, l⟩ := ih (min x a)
    simp only [List.foldl_cons]
    constructor
    · rcases List.mem_cons.mp m with h | h
      · rw [h]
        by_cases hxa : x ≤ a
        · rw [Int.min_eq_left hxa]; simp
        · rw [Int.min_eq_right (by omega)]; simp
      · exact List.mem_cons_of_mem _ (List.mem_cons_of_mem _ h)
    · intro y hy
      have hmin := l (min x a) (by simp)
      rcases List.mem_cons.mp hy with h | h
      · subst h; have := Int.min_le_left y a; omega
      · rcases List.mem_cons.mp h with h | h
        · subst h; have := Int.min_le_right x y; omega
        · exact l y (List.mem_cons_of_mem _ h)

theorem foldl_max_spec (xs : List Int) (x : Int) :
    xs.foldl max x ∈ x :: xs ∧ ∀ y ∈ x :: xs, y ≤ xs.foldl max x := by
  induction xs generalizing x with
  | nil => simp
  | cons a as ih =>
    obtain ⟨m, l⟩ := ih (max x a)
    simp only [List.foldl_cons]
    constructor
    · rcases List.mem_cons.mp m with h | h
      · rw [h]
        by_cases hxa : x ≤ a
        · rw [Int.max_eq_right hxa]; simp
        · rw [Int.max_eq_left (by omega)]; simp
      · exact List.mem_cons_of_mem _ (List.mem_cons_of_mem _ h)
    · intro y hy
      have hmax := l (max x a) (by simp)
      rcases List.mem_cons.mp hy with h | h
      · subst h; have := Int.le_max_left y a; omega
      · rcases List.mem_cons.mp h with h | h
        · subst h; have := Int.le_max_right x y; omega
        · exact l y (List.mem_cons_of_mem _ h)

/-- the reference aggregate the driver evaluates on the implementation's output is a `Covers` -/
theorem covers_expect (l : List Int) : Covers l (expectSnap l) := by
  cases l with
  | nil => exact ⟨rfl, fun _ => ⟨rfl, rfl, rfl⟩, fun h => absurd rfl h, fun h => absurd rfl h, by simp⟩
  | cons x xs =>
    obtain ⟨m1, l1⟩ := foldl_min_spec xs x
    obtain ⟨m2, l2⟩ := foldl_max_spec xs x
    refine ⟨rfl, fun h => by simp at h, fun _ => by simp [expectSnap], fun _ => ⟨m1, m2⟩, fun y hy => ⟨l1 y hy, l2 y hy⟩⟩

/-- … and it is the only one: `Covers` pins every field of a snapshot -/
theorem covers_unique {l : List Int} {a b : Snap} (ha : Covers l a) (hb : Covers l b) : a = b := by
  have hc : a.count = b.count := by rw [ha.count, hb.count]
  by_cases hl : l = []
  · obtain ⟨a1, a2, a3⟩ := ha.emp hl
    obtain ⟨b1, b2, b3⟩ := hb.emp hl
    cases a; cases b; simp_all
  · have hv : a.avg = b.avg := by rw [ha.avg hl, hb.avg hl]
    obtain ⟨am, aM⟩ := ha.mem hl
    obtain ⟨bm, bM⟩ := hb.mem hl
    have h1 := (ha.le _ bm).1; have h2 := (hb.le _ am).1
    have h3 := (ha.le _ bM).2; have h4 := (hb.le _ aM).2
    have hmin : a.min = b.min := by omega
    have hmax : a.max = b.max := by omega
    cases a; cases b; simp_all

/-! ### histories: the ghost lists of durations behind the four accumulators -/

structure Inv (g : Ghost) (s : Stats) : Prop where
  rs : Rep g.pendS s.succ.running
  ls : Rep g.collS s.succ.lifetime
  rf : Rep g.pendF s.failed.running
  lf : Rep g.collF s.failed.lifetime
  d : s.dropped = g.drops
  pos : Pos g.pendS ∧ Pos g.collS ∧ Pos g.pendF ∧ Pos g.collF

theorem pos_append {a b : List Int} (ha : Pos a) (hb : Pos b) : Pos (a ++ b) := by
  intro x hx; rcases List.mem_append.mp hx with h | h
  · exact ha x h
  · exact hb x h

theorem inv_empty : Inv Ghost.empty Stats.empty :=
  ⟨rep_empty, rep_empty, rep_empty, rep_empty, rfl, by simp [Ghost.empty, Pos]⟩

theorem inv_record {g : Ghost} {s : Stats} (h : Inv g s) (o : Outcome) {ns : Int} (hn : 0 < ns) :
    Inv (g.record o ns) (s.record o ns) := by
  obtain ⟨p1, p2, p3, p4⟩ := h.pos
  have hp : Pos [ns] := by intro x hx; simp at hx; omega
  cases o
  · exact ⟨rep_add h.rs p1 hn, h.ls, h.rf, h.lf, h.d, pos_append p1 hp, p2, p3, p4⟩
  · exact ⟨h.rs, h.ls, rep_add h.rf p3 hn, h.lf, h.d, p1, p2, pos_append p3 hp, p4⟩
  · exact ⟨h.rs, h.ls, h.rf, h.lf, by simp [Stats.record, Ghost.record, h.d], p1, p2, p3, p4⟩
  · exact h

theorem inv_records {l : List (Outcome × Int)} (hl : ∀ r ∈ l, 0 < r.2) :
    ∀ {g : Ghost} {s : Stats}, Inv g s → Inv (g.records l) (s.records l) := by
  induction l with
  | nil => intro g s h; exact h
  | cons r rs ih =>
    intro g s h
    simp only [Ghost.records, Stats.records, List.foldl_cons]
    exact ih (fun x hx => hl x (List.mem_cons_of_mem _ hx)) (inv_record h r.1 (hl r (by simp)))

theorem inv_drainS {g : Ghost} {s : Stats} (h : Inv g s) :
    Inv { g with pendS := [] } s.drainS.2 ∧ Rep g.pendS s.drainS.1 :=
  ⟨⟨rep_empty, h.ls, h.rf, h.lf, h.d, by simp [Pos], h.pos.2.1, h.pos.2.2.1, h.pos.2.2.2⟩, h.rs⟩

theorem inv_drainF {g : Ghost} {s : Stats} (h : Inv g s) :
    Inv { g with pendF := [] } s.drainF.2 ∧ Rep g.pendF s.drainF.1 :=
  ⟨⟨h.rs, h.ls, rep_empty, h.lf, h.d, h.pos.1, h.pos.2.1, by simp [Pos], h.pos.2.2.2⟩, h.rf⟩

theorem inv_mergeS {g : Ghost} {s : Stats} (h : Inv g s) {l : List Int} {held : Acc}
    (hr : Rep l held) (hp : Pos l) :
    Inv { g with collS := g.collS ++ l } (s.mergeS held).2.2 ∧ Covers l (s.mergeS held).1 ∧
      Covers (g.collS ++ l) (s.mergeS held).2.1 :=
  ⟨⟨h.rs, rep_update h.ls hr h.pos.2.1 hp, h.rf, h.lf, h.d, h.pos.1, pos_append h.pos.2.1 hp,
      h.pos.2.2.1, h.pos.2.2.2⟩, covers_of_rep hr, covers_of_rep (rep_update h.ls hr h.pos.2.1 hp)⟩

theorem inv_mergeF {g : Ghost} {s : Stats} (h : Inv g s) {l : List Int} {held : Acc}
    (hr : Rep l held) (hp : Pos l) :
    Inv { g with collF := g.collF ++ l } (s.mergeF held).2 ∧ Covers (g.collF ++ l) (s.mergeF held).1 :=
  ⟨⟨h.rs, h.ls, h.rf, rep_update h.lf hr h.pos.2.2.2 hp, h.d, h.pos.1, h.pos.2.1, h.pos.2.2.1,
      pos_append h.pos.2.2.2 hp⟩, covers_of_rep (rep_update h.lf hr h.pos.2.2.2 hp)⟩

/-- One `Snapshot`/`Total`, whatever is recorded at its two yield points: the invariant is kept,
the lifetime figures cover every duration merged so far (all recorded before the collect began,
for each outcome, plus — for failed — those that landed at the first yield point), the period
figures exactly those recorded since the previous collect, and the dropped count is exact. -/
theorem collectAll_spec {g : Ghost} {s : Stats} (h : Inv g s) (total : Bool) (inj : Inject)
    (h1 : ∀ r ∈ inj.atSucc, 0 < r.2) (h2 : ∀ r ∈ inj.atFail, 0 < r.2) :
    Inv (g.collectAll inj).1 (s.collectAll total inj).2 ∧
    Covers (g.collectAll inj).1.collS (s.collectAll total inj).1.succ ∧
    Covers (g.collectAll inj).1.collF (s.collectAll total inj).1.failed ∧
    (total = false → Covers (g.collectAll inj).2 (s.collectAll total inj).1.period) ∧
    (s.collectAll total inj).1.dropped = (g.collectAll inj).1.drops := by
  obtain ⟨a1, a2⟩ := inv_drainS h
  have b := inv_records h1 a1
  obtain ⟨c1, c2, c3⟩ := inv_mergeS b a2 h.pos.1
  obtain ⟨d1, d2⟩ := inv_drainF c1
  have e := inv_records h2 d1
  obtain ⟨f1, f2⟩ := inv_mergeF e d2 c1.pos.2.2.1
  have hcollS : ∀ (l : List (Outcome × Int)) (g : Ghost), (g.records l).collS = g.collS := by
    intro l; induction l with
    | nil => intro g; rfl
    | cons r rs ih => intro g; simp only [Ghost.records, List.foldl_cons]; rw [← Ghost.records, ih]; cases r.1 <;> rfl
  refine ⟨f1, ?_, f2, ?_, f1.d⟩
  · have : (g.collectAll inj).1.collS = ((({ g with pendS := [] } : Ghost).records inj.atSucc).collS ++ g.pendS) := by
      simp only [Ghost.collectAll, hcollS]
    rw [this]
    exact c3
  · intro ht; subst ht
    exact c2

/-! ### the property over whole histories (sequential use) -/

def ghostStep (g : Ghost) : Op → Ghost
  | .record o ns => g.record o ns
  | .snapshot inj => (g.collectAll inj).1
  | .total inj => (g.collectAll inj).1

def opPos : Op → Prop
  | .record _ ns => 0 < ns
  | .snapshot inj => (∀ r ∈ inj.atSucc, 0 < r.2) ∧ (∀ r ∈ inj.atFail, 0 < r.2)
  | .total inj => (∀ r ∈ inj.atSucc, 0 < r.2) ∧ (∀ r ∈ inj.atFail, 0 < r.2)

/-- C17 (aggregation): after any sequence of records, snapshots and totals, the four accumulators
are exactly the aggregates of the durations recorded since / up to the last collect. -/
theorem C17_repr (ops : List Op) (hops : ∀ op ∈ ops, opPos op) :
    ∀ (g : Ghost) (s : Stats), Inv g s → Inv (ops.foldl ghostStep g) (s.run ops).1 := by
  induction ops with
  | nil => intro g s h; exact h
  | cons op ops ih =>
    intro g s h
    have hop := hops op (by simp)
    have hrest := fun o ho => hops o (List.mem_cons_of_mem _ ho)
    simp only [List.foldl_cons, Stats.run]
    apply ih hrest
    cases op with
    | record o ns => exact inv_record h o hop
    | snapshot inj => exact (collectAll_spec h false inj hop.1 hop.2).1
    | total inj => exact (collectAll_spec h true inj hop.1 hop.2).1

/-- C17: a snapshot taken with nothing landing at its yield points (sequential use) reports,
per outcome, lifetime figures over *all* durations recorded so far and period figures over
exactly those recorded since the previous snapshot. -/
theorem C17_snapshot_exact {g : Ghost} {s : Stats} (h : Inv g s) :
    let out := (s.collectAll false Inject.none).1
    Covers (g.collS ++ g.pendS) out.succ ∧ Covers (g.collF ++ g.pendF) out.failed ∧
    Covers g.pendS out.period ∧ out.dropped = g.drops := by
  have := collectAll_spec h false Inject.none (by simp [Inject.none]) (by simp [Inject.none])
  simp only [Ghost.collectAll, Inject.none, Ghost.records, List.foldl_nil] at this
  exact ⟨this.2.1, this.2.2.1, this.2.2.2.1 (by first | rfl | trivial), this.2.2.2.2⟩

theorem C17_total_exact {g : Ghost} {s : Stats} (h : Inv g s) :
    let out := (s.collectAll true Inject.none).1
    Covers (g.collS ++ g.pendS) out.succ ∧ Covers (g.collF ++ g.pendF) out.failed ∧
    out.dropped = g.drops := by
  have := collectAll_spec h true Inject.none (by simp [Inject.none]) (by simp [Inject.none])
  simp only [Ghost.collectAll, Inject.none, Ghost.records, List.foldl_nil] at this
  exact ⟨this.2.1, this.2.2.1, this.2.2.2.2⟩

/-- lifetime counts never decrease from one collect to the next -/
theorem C17_count_monotone {g : Ghost} {s : Stats} (h : Inv g s) (total : Bool) (inj : Inject)
    (h1 : ∀ r ∈ inj.atSucc, 0 < r.2) (h2 : ∀ r ∈ inj.atFail, 0 < r.2) :
    s.succ.lifetime.count ≤ (s.collectAll total inj).1.succ.count ∧
    s.failed.lifetime.count ≤ (s.collectAll total inj).1.failed.count := by
  have hs := collectAll_spec h total inj h1 h2
  have c1 := hs.2.1.count
  have c2 := hs.2.2.1.count
  have l1 := h.ls.count
  have l2 := h.lf.count
  -- ghost lists only grow
  have g1 : g.collS.length ≤ (g.collectAll inj).1.collS.length := by
    simp only [Ghost.collectAll]
    have : ∀ (l : List (Outcome × Int)) (g : Ghost), (g.records l).collS = g.collS := by
      intro l; induction l with
      | nil => intro g; rfl
      | cons r rs ih => intro g; simp only [Ghost.records, List.foldl_cons]; rw [← Ghost.records, ih]; cases r.1 <;> rfl
    simp [this]
  have g2 : g.collF.length ≤ (g.collectAll inj).1.collF.length := by
    simp only [Ghost.collectAll]
    have : ∀ (l : List (Outcome × Int)) (g : Ghost), (g.records l).collF = g.collF := by
      intro l; induction l with
      | nil => intro g; rfl
      | cons r rs ih => intro g; simp only [Ghost.records, List.foldl_cons]; rw [← Ghost.records, ih]; cases r.1 <;> rfl
    simp [this]
  omega

-- non-vacuity: a concrete history
example : ((Stats.empty.run [.record .success 5, .record .success 7, .record .fail 3, .snapshot Inject.none,
    .record .fail 9, .record .dropped 0, .total Inject.none]).2.map fun x => (x.succ.count, x.succ.avg, x.failed.max, x.dropped))
    = [(2, 6, 3, 0), (2, 6, 9, 1)] := by decide

end F1.Props.C17
