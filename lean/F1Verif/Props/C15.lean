/-
C15 — config-file plans keep exactly the unfinished stages, in order, defaults applied.
-/
import F1Verif.Props.C14
namespace F1.Props.C15
open F1.Parse F1.Plan F1.Props.C14

/-- the duration a stage ends up with: its own, else the default section's -/
def durOf (d s : StageCfg) : Option Int := inh s.duration d.duration

/-- Specification of the skip rule, independent of the loop: walk the stages with the cumulative
duration and keep those whose scheduled end (stage-start + cumulative duration) is after `now`. -/
def keptSpec (d : StageCfg) (start : Option Int) (now : Int) : List StageCfg → Int → List (StageCfg × Int)
  | [], _ => []
  | s :: rest, total =>
    if keepStage start now (total + (durOf d s).getD 0) then
      (s, (durOf d s).getD 0) :: keptSpec d start now rest (total + (durOf d s).getD 0)
    else keptSpec d start now rest (total + (durOf d s).getD 0)

def totalSpec (d : StageCfg) (l : List StageCfg) : Int := (l.map fun s => (durOf d s).getD 0).sum

/-- What the stage loop returns when it succeeds: the kept stages are exactly those selected by the
skip rule, in file order, each with its own (or inherited) duration and parameters and runnable;
the running total is the sum of the durations of *all* stages. -/
theorem stageLoop_spec (d : StageCfg) (start : Option Int) (now : Int) :
    ∀ (l : List StageCfg) (total : Int) (acc : List RStage) (out : List RStage) (t : Int),
      stageLoop d start now l total acc = .ok (out, t) →
      t = total + totalSpec d l ∧
      ∃ new, out = acc.reverse ++ new ∧
        new.map (·.duration) = (keptSpec d start now l total).map (·.2) ∧
        new.map (·.params) = (keptSpec d start now l total).map (fun p => (inh p.1.parameters d.parameters).getD []) ∧
        ∀ r ∈ new, Runnable r := by
  intro l
  induction l with
  | nil =>
    intro total acc out t h
    simp only [stageLoop] at h
    injection h with h; injection h with h1 h2
    subst h1; subst h2
    exact ⟨by simp [totalSpec], [], by simp, by simp [keptSpec], by simp [keptSpec], by simp⟩
  | cons s rest ih =>
    intro total acc out t h
    simp only [stageLoop] at h
    obtain ⟨dur, hdur, h⟩ := req_ok _ _ _ h
    obtain ⟨mode, _, h⟩ := req_ok _ _ _ h
    have hd : (durOf d s).getD 0 = dur := by unfold durOf; rw [hdur]; rfl
    have htot : totalSpec d (s :: rest) = dur + totalSpec d rest := by
      simp [totalSpec, hd]
    split at h
    · rename_i hk
      obtain ⟨r, hr, h⟩ := bind_ok _ _ _ h
      obtain ⟨e1, new, e2, e3, e4, e5⟩ := ih _ _ _ _ h
      obtain ⟨p1, p2, p3⟩ := parseStage_runnable _ _ _ _ _ hr
      refine ⟨by rw [e1, htot]; omega, r :: new, by rw [e2]; simp, ?_, ?_, ?_⟩
      · simp only [keptSpec, hd, hk, if_true]
        simp [e3, p2]
      · simp only [keptSpec, hd, hk, if_true]
        simp [e4, p3]
      · intro x hx
        rcases List.mem_cons.mp hx with rfl | hx
        · exact p1
        · exact e5 x hx
    · rename_i hk
      obtain ⟨e1, new, e2, e3, e4, e5⟩ := ih _ _ _ _ h
      refine ⟨by rw [e1, htot]; omega, new, e2, ?_, ?_, e5⟩
      · simp only [keptSpec, hd, hk]; exact e3
      · simp only [keptSpec, hd, hk]; exact e4

/-- the default section as the loop sees it (concurrency falls back to the limit, jitter to 0) -/
def effDefault (c : Config) (conc : Int) : StageCfg :=
  { c.default_ with concurrency := inh c.default_.concurrency (some conc), jitter := inh c.default_.jitter (some 0) }

theorem parsePlan_ok (c : Config) (now : Int) (p : PlanOut) (h : parsePlan c now = .ok p) :
    ∃ conc, c.limits.concurrency = some conc ∧ 1 ≤ conc ∧ p.concurrency = conc ∧
      c.scenario = some p.scenario ∧ c.limits.maxDuration = some p.maxDuration ∧
      c.limits.maxIterations = some p.maxIterations ∧ c.limits.ignoreDropped = some p.ignoreDropped ∧
      p.maxFailures = c.limits.maxFailures.getD 0 ∧ p.maxFailuresRate = c.limits.maxFailuresRate.getD 0 ∧
      stageLoop (effDefault c conc) c.stageStart now c.stages 0 [] = .ok (p.stages, p.total) := by
  unfold parsePlan at h
  obtain ⟨sc, hsc, h⟩ := req_ok _ _ _ h
  obtain ⟨md, hmd, h⟩ := req_ok _ _ _ h
  obtain ⟨conc, hconc, h⟩ := req_ok _ _ _ h
  split at h
  · cases h
  · obtain ⟨mi, hmi, h⟩ := req_ok _ _ _ h
    obtain ⟨ig, hig, h⟩ := req_ok _ _ _ h
    split at h
    · cases h
    · obtain ⟨r, hr, h⟩ := bind_ok _ _ _ h
      injection h with h; subst h
      exact ⟨conc, hconc, by omega, rfl, hsc, hmd, hmi, hig, rfl, rfl, by simpa [effDefault] using hr⟩

/-- C15 (kept stages): an accepted config yields, in file order, exactly the stages whose scheduled
end is still in the future — all of them when no stage-start is given. -/
theorem C15_kept (c : Config) (now : Int) (p : PlanOut) (h : parsePlan c now = .ok p) :
    ∃ conc, c.limits.concurrency = some conc ∧
      p.stages.map (·.duration) = (keptSpec (effDefault c conc) c.stageStart now c.stages 0).map (·.2) := by
  obtain ⟨conc, h1, _, _, _, _, _, _, _, _, hl⟩ := parsePlan_ok c now p h
  obtain ⟨_, new, e2, e3, _, _⟩ := stageLoop_spec _ _ _ _ _ _ _ _ hl
  exact ⟨conc, h1, by rw [e2]; simpa using e3⟩

theorem C15_all_kept_without_start (d : StageCfg) (now : Int) : ∀ (l : List StageCfg) (total : Int),
    (keptSpec d none now l total).map (·.1) = l := by
  intro l
  induction l with
  | nil => intro _; rfl
  | cons s rest ih => intro total; simp [keptSpec, keepStage, ih]

/-- C15 (defaults): every kept stage's parameters are the stage's own if present, else the default
section's (else none) -/
theorem C15_defaults (c : Config) (now : Int) (p : PlanOut) (h : parsePlan c now = .ok p) :
    ∃ conc, c.limits.concurrency = some conc ∧
      p.stages.map (·.params) = (keptSpec (effDefault c conc) c.stageStart now c.stages 0).map
        (fun q => (inh q.1.parameters c.default_.parameters).getD []) := by
  obtain ⟨conc, h1, _, _, _, _, _, _, _, _, hl⟩ := parsePlan_ok c now p h
  obtain ⟨_, new, e2, _, e4, _⟩ := stageLoop_spec _ _ _ _ _ _ _ _ hl
  exact ⟨conc, h1, by rw [e2]; simpa [effDefault] using e4⟩

/-- C15 (total): the trigger's total duration is the sum of all stage durations, kept or not -/
theorem C15_total (c : Config) (now : Int) (p : PlanOut) (h : parsePlan c now = .ok p) :
    ∃ conc, c.limits.concurrency = some conc ∧ p.total = totalSpec (effDefault c conc) c.stages := by
  obtain ⟨conc, h1, _, _, _, _, _, _, _, _, hl⟩ := parsePlan_ok c now p h
  obtain ⟨e1, _⟩ := stageLoop_spec _ _ _ _ _ _ _ _ hl
  exact ⟨conc, h1, by rw [e1]; simp⟩

/-- C15 (limits): mapped one-to-one onto the run options, optional ones default to 0 -/
theorem C15_limits (c : Config) (now : Int) (p : PlanOut) (h : parsePlan c now = .ok p) :
    c.limits.maxDuration = some p.maxDuration ∧ c.limits.concurrency = some p.concurrency ∧
    c.limits.maxIterations = some p.maxIterations ∧ c.limits.ignoreDropped = some p.ignoreDropped ∧
    p.maxFailures = c.limits.maxFailures.getD 0 ∧ p.maxFailuresRate = c.limits.maxFailuresRate.getD 0 ∧
    c.scenario = some p.scenario := by
  obtain ⟨conc, h1, _, h3, h4, h5, h6, h7, h8, h9, _⟩ := parsePlan_ok c now p h
  exact ⟨h5, by rw [h1, h3], h6, h7, h8, h9, h4⟩

/-- C14 (config files): an accepted config yields a runnable trigger — at least one worker, and
every kept stage has a positive tick interval or at least one user -/
theorem C14_plan_runnable (c : Config) (now : Int) (p : PlanOut) (h : parsePlan c now = .ok p) :
    1 ≤ p.concurrency ∧ ∀ r ∈ p.stages, Runnable r := by
  obtain ⟨conc, _, h2, h3, _, _, _, _, _, _, hl⟩ := parsePlan_ok c now p h
  obtain ⟨_, new, e2, _, _, e5⟩ := stageLoop_spec _ _ _ _ _ _ _ _ hl
  refine ⟨by omega, ?_⟩
  intro r hr
  rw [e2] at hr
  exact e5 r (by simpa using hr)

/-- C15/C13 (defaults, jitter): a rate-driven stage is built with the jitter it spells — also an explicit 0 — and
with the default section's only when it omits the field; the default section's own default is 0. -/
theorem C15_stage_jitter (s d : StageCfg) (mode : Bytes) (dur : Int) (r : RStage)
    (h : parseStage s d mode dur = .ok r) (hm : mode ≠ b_users) :
    r.jitter = (inh s.jitter d.jitter).getD 0 := by
  unfold parseStage at h
  simp only at h
  split at h
  · obtain ⟨_, _, h⟩ := req_ok _ _ _ h
    obtain ⟨_, _, h⟩ := req_ok _ _ _ h
    obtain ⟨_, _, h⟩ := bind_ok _ _ _ h
    injection h with h; subst h; rfl
  · split at h
    · obtain ⟨_, _, h⟩ := req_ok _ _ _ h
      obtain ⟨_, _, h⟩ := req_ok _ _ _ h
      obtain ⟨_, _, h⟩ := req_ok _ _ _ h
      obtain ⟨_, _, h⟩ := bind_ok _ _ _ h
      injection h with h; subst h; rfl
    · split at h
      · obtain ⟨_, _, h⟩ := req_ok _ _ _ h
        obtain ⟨_, _, h⟩ := req_ok _ _ _ h
        obtain ⟨_, _, h⟩ := req_ok _ _ _ h
        obtain ⟨_, _, h⟩ := bind_ok _ _ _ h
        injection h with h; subst h; rfl
      · split at h
        · obtain ⟨_, _, h⟩ := req_ok _ _ _ h
          obtain ⟨_, _, h⟩ := req_ok _ _ _ h
          obtain ⟨_, _, h⟩ := req_ok _ _ _ h
          obtain ⟨_, _, h⟩ := req_ok _ _ _ h
          obtain ⟨_, _, h⟩ := req_ok _ _ _ h
          obtain ⟨_, _, h⟩ := req_ok _ _ _ h
          obtain ⟨_, _, h⟩ := req_ok _ _ _ h
          obtain ⟨_, _, h⟩ := bind_ok _ _ _ h
          injection h with h; subst h; rfl
        · first
            | cases h
            | (split at h
               · rename_i hu; exact absurd hu hm
               · cases h)

theorem C15_explicit_zero_jitter_kept (d : StageCfg) (s : StageCfg) (h : s.jitter = some 0) :
    (inh s.jitter d.jitter).getD 0 = 0 := by simp [inh, h]

-- non-vacuity: a users stage and an inherited one, restarted after the first has finished
example : (parsePlan {
      scenario := some "s",
      limits := { maxDuration := some 10, concurrency := some 2, maxIterations := some 0, ignoreDropped := some true },
      default_ := { mode := some b_users, duration := some 7 },
      stageStart := some 0,
      stages := [{ duration := some 5, concurrency := some 3 }, { parameters := some [("k", "v")] }] } 6)
    = .ok { scenario := "s", stages := [{ duration := 7, interval := 0, users := 2, params := [("k", "v")] }], total := 12, maxDuration := 10, concurrency := 2,
            maxIterations := 0, maxFailures := 0, maxFailuresRate := 0, ignoreDropped := true } := by
  decide

end F1.Props.C15
