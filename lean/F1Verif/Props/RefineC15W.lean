/- C15 — the regenerated stage loop of `newStagesWorker` (internal/trigger/file/stages_worker.go), executed by the
MiniGo semantics: the stages are run one after another, in plan order, each by one call of `runStage` with the same
context, output, pool and options; before every stage the context and the iteration limit are consulted, and the
first stage that finds the context done or the limit reached ends the loop — neither it nor any later stage is run. -/
import F1Verif.Props.RefineBase

namespace F1.Props.Refine
open F1.MiniGo F1.Generated.MG

section worker
variable {F : Type} [FloatLike F]

abbrev WRec (F : Type) := List (String × Val F)

/-- the externals: before the k-th stage the context reports an error iff `cancelled k` and the pool manager reports the
limit reached iff `limit m`, where m counts the times it was asked (it is only asked when the context is not done) -/
def workerExt (cancelled limit : Nat → Bool) : Ext F := fun f n _ =>
  if f = "carg0.Err" then (if cancelled n then .nonNil else .nil)
  else if f = "carg2.MaxIterationsReached" then .bool (limit n)
  else .nil

def runRec (ctx out mgr stage opts : Val F) : WRec F := [("0", ctx), ("1", out), ("2", mgr), ("3", stage), ("4", opts)]

/-- the stages that are run: from context query `ne` and limit query `nm` on -/
def stagesRun (cancelled limit : Nat → Bool) : List (Val F) → Nat → Nat → List (Val F)
  | [], _, _ => []
  | st :: rest, ne, nm =>
    if cancelled ne then [] else if limit nm then [] else st :: stagesRun cancelled limit rest (ne + 1) (nm + 1)

def workerLoop : Stmt :=
  (.while (.bin .lt (.var "$i0") (.var "$n0"))
  (.seq (.assign "stage" (.index "arg0" (.var "$i0") ""))
  (.seq (.seq (.ite (.bin .lor (.bin .ne (.call0 "carg0.Err") .nil) (.call0 "carg2.MaxIterationsReached"))
  .ret0
  .skip)
  (.callS [] "runStage" "" [(.var "carg0"), (.var "carg1"), (.var "carg2"), (.var "stage"), (.var "carg3")]))
  (.assign "$i0" (.bin .add (.var "$i0") (.int 1))))))

def workerState (ctx out mgr opts : Val F) (all : List (Val F)) (n i st : Val F) (ne nm nr : Nat) (log : List (WRec F)) : State F :=
  ⟨[("carg0", ctx), ("carg1", out), ("carg2", mgr), ("carg3", opts), ("$n0", n), ("$i0", i), ("stage", st)],
   [("carg0.Err", ne), ("carg2.MaxIterationsReached", nm), ("runStage", nr)], [], [],
   [("arg0", all.map fun c => [("", c)]), ("runStage", log)]⟩

def obsRuns (o : Outcome F) : Option (List (WRec F)) :=
  match o with
  | .normal s => some ((lookup "runStage" s.arrs).getD [])
  | .returned _ s => some ((lookup "runStage" s.arrs).getD [])
  | _ => none

theorem workerLoop_spec (cancelled limit : Nat → Bool) (ctx out mgr opts : Val F) :
    ∀ (rest pre : List (Val F)) (st : Val F) (ne nm nr : Nat) (log : List (WRec F)) (fuel : Nat), rest.length + 1 ≤ fuel →
    obsRuns (exec (workerExt cancelled limit) fuel workerLoop
        (workerState ctx out mgr opts (pre ++ rest) (.int (pre ++ rest).length) (.int pre.length) st ne nm nr log)) =
      some (log ++ (stagesRun cancelled limit rest ne nm).map (runRec ctx out mgr · opts))
  | [], pre, st, ne, nm, nr, log, fuel, hf => by
    obtain ⟨f, rfl⟩ : ∃ f, fuel = f + 1 := ⟨fuel - 1, by simp at hf; omega⟩
    simp [minigo, workerLoop, workerState, stagesRun, obsRuns]
  | s :: rest, pre, st, ne, nm, nr, log, fuel, hf => by
    obtain ⟨f, rfl⟩ : ∃ f, fuel = f + 1 := ⟨fuel - 1, by simp at hf; omega⟩
    have ih := workerLoop_spec cancelled limit ctx out mgr opts rest (pre ++ [s]) s (ne + 1) (nm + 1) (nr + 1)
      (log ++ [runRec ctx out mgr s opts]) f (by simp at hf ⊢; omega)
    simp only [List.append_assoc, List.singleton_append, List.length_append, List.length_singleton] at ih
    have h1 : (pre.length : Int) < pre.length + ((rest.length : Int) + 1) := by omega
    have h2 : ¬ ((pre.length : Int) < 0) := by omega
    simp [workerLoop, workerState, runRec] at ih
    by_cases hc : cancelled ne = true
    · simp [minigo, workerLoop, workerState, workerExt, stagesRun, obsRuns, h1, h2, hc]
    · by_cases hl : limit nm = true
      · simp [minigo, workerLoop, workerState, workerExt, stagesRun, obsRuns, h1, h2, hc, hl]
      · simp [minigo, workerLoop, workerState, workerExt, stagesRun, h1, h2, hc, hl, runRec]
        rw [ih]

/-- **the regenerated worker closure**, with its locals declared -/
theorem file_stagesWorker_refines (cancelled limit : Nat → Bool) (ctx out mgr opts : Val F) (all : List (Val F)) (n0 i0 st : Val F)
    (ne nm nr : Nat) (log : List (WRec F)) (fuel : Nat) (hf : all.length + 1 ≤ fuel) :
    obsRuns (exec (workerExt cancelled limit) fuel file_stagesWorker_body
        (workerState ctx out mgr opts all n0 i0 st ne nm nr log)) =
      some (log ++ (stagesRun cancelled limit all ne nm).map (runRec ctx out mgr · opts)) := by
  have h := workerLoop_spec cancelled limit ctx out mgr opts all [] st ne nm nr log fuel hf
  simp [workerLoop, workerState] at h
  simp [minigo, file_stagesWorker_body, workerState, h]

/-- the stages run are a prefix of the plan: strictly in plan order, none skipped, none repeated -/
theorem stagesRun_prefix (cancelled limit : Nat → Bool) : ∀ (l : List (Val F)) (ne nm : Nat),
    stagesRun cancelled limit l ne nm <+: l
  | [], _, _ => by simp [stagesRun]
  | s :: rest, ne, nm => by
    unfold stagesRun
    split
    · simp
    · split
      · simp
      · simpa using stagesRun_prefix cancelled limit rest (ne + 1) (nm + 1)

/-- nothing stops the run: every stage is run -/
theorem stagesRun_all (cancelled limit : Nat → Bool) (hc : ∀ k, cancelled k = false) (hl : ∀ k, limit k = false) :
    ∀ (l : List (Val F)) (ne nm : Nat), stagesRun cancelled limit l ne nm = l
  | [], _, _ => by simp [stagesRun]
  | s :: rest, ne, nm => by simp [stagesRun, hc, hl, stagesRun_all cancelled limit hc hl rest]

/-! #### the dry-run rate function of a file plan (`newDryRun`) -/

structure DStage (F : Type) where
  dur : Int
  users : Int
  rate : Val F

def dRec (d : DStage F) : WRec F := [("StageDuration", .int d.dur), ("UsersConcurrency", .int d.users), ("Rate", d.rate)]

/-- one call of the dry-run closure as written: past the last stage 0; the first call fixes the start time; when the
current stage's end is before `t` the cursor moves on (the value returned is still that of the stage the call began in);
a users stage yields 1, a rate stage what its rate function yields for `t` (`rateOf`, the k-th dynamic call) -/
def dryStep (stages : List (DStage F)) (rateOf : Nat → Val F → Int → Int) (nr : Nat) (startTime : Int) (started : Bool) (idx : Nat) (t : Int) :
    Int × Int × Bool × Nat :=
  match stages[idx]? with
  | none => (0, startTime, started, idx)
  | some d =>
    let st := if started then startTime else t
    let (st', idx') := if st + d.dur < t then (st + d.dur, idx + 1) else (st, idx)
    (if d.users > 0 then 1 else rateOf nr d.rate t, st', true, idx')

def dryExt (rateOf : Nat → Val F → Int → Int) : Ext F := fun f n args =>
  if f = "$dyn" then (match args with | [_, r, .int t] => .int (rateOf n r t) | _ => .nil) else .nil

def dryState (stages : List (DStage F)) (startTime : Int) (started : Bool) (idx : Nat) (t : Int) (l : List (Val F)) (nr : Nat)
    (log : List (WRec F)) : State F :=
  ⟨[("startTime", .int startTime), ("started", .bool started), ("stageIdx", .int idx), ("carg0", .int t),
    ("$idx", l.getD 0 .nil), ("currentStage.StageDuration", l.getD 1 .nil), ("currentStage.UsersConcurrency", l.getD 2 .nil),
    ("currentStage.Rate", l.getD 3 .nil), ("rate", l.getD 4 .nil)],
   [("$dyn", nr)], [], [], [("arg0", stages.map dRec), ("$dyn", log)]⟩

/-- **the regenerated dry-run closure** is `dryStep` -/
theorem file_dryRun_refines (stages : List (DStage F)) (rateOf : Nat → Val F → Int → Int) (startTime : Int) (started : Bool)
    (idx : Nat) (t : Int) (l : List (Val F)) (nr : Nat) (log : List (WRec F)) (fuel : Nat) :
    observe (runFn (dryExt rateOf) fuel file_dryRun_body (dryState stages startTime started idx t l nr log))
        ["startTime", "started", "stageIdx"] =
      some ([.int (dryStep stages rateOf nr startTime started idx t).1],
        [some (.int (dryStep stages rateOf nr startTime started idx t).2.1),
         some (.bool (dryStep stages rateOf nr startTime started idx t).2.2.1),
         some (.int (dryStep stages rateOf nr startTime started idx t).2.2.2)]) := by
  by_cases hi : idx < stages.length
  · have hge : ¬ ((idx : Int) ≥ stages.length) := by omega
    have hneg : ¬ ((idx : Int) < 0) := by omega
    have hrec : (stages.map dRec)[idx]? = some (dRec stages[idx]) := by simp [hi]
    have hst : stages[idx]? = some stages[idx] := by simp [hi]
    cases started <;>
      simp [minigo, file_dryRun_body, dryState, dryStep, dryExt, hge, hneg, hrec, hst, dRec, MiniGo.isTrue] <;>
      minigo_close
  · have hge : ((idx : Int) ≥ stages.length) := by omega
    have hst : stages[idx]? = none := by simp; omega
    simp [minigo, file_dryRun_body, dryState, dryStep, hge, hst]

end worker
end F1.Props.Refine
