/-
C02 — requested work is conserved: every request is started once or dropped once.
-/
import F1Verif.Props.Pool
namespace F1.Props.C02
open F1.TriggerPool F1.Props.Pool

/-- C02 (counter law): the three operations on the pending counter. A swap hands out exactly the
positive old value, a take succeeds exactly when a request was pending and then consumes exactly one. -/
theorem C02_counter_law (num : Int) :
    (num - 1 ≥ 0 → pos (num - 1) + 1 = pos num) ∧             -- a successful take consumes exactly one pending request
    (¬ num - 1 ≥ 0 → pos (num - 1) = 0 ∧ pos num = 0) := by   -- a failed take (over-take): nothing was or is pending
  unfold pos; omega

/-- C02 (conservation): in every reachable state of every schedule of ticker, workers and shutdown,
for any number of workers, tick sizes and stop points, each installed request is exactly one of:
started, reported dropped, refused by the limit, discarded because of the limit, still pending,
or in transit (taken but not yet classified / swapped out but not yet reported). -/
theorem C02_conservation (W N : Nat) (evs : List Ev) (s : State) (h : run false (init W N) evs = some s) :
    s.requested = s.started + s.dropped + s.refused + s.discarded + pos s.num + inTransit s :=
  (reachable_init W N evs s h).1.cons

/-- C02 (final): once everything has terminated nothing is pending or in transit:
requested = started + dropped + (refused + discarded by the max-iterations limit). -/
theorem C02_final (W N : Nat) (evs : List Ev) (s : State) (h : run false (init W N) evs = some s)
    (ht : terminated s = true) :
    s.requested = s.started + s.dropped + s.refused + s.discarded := by
  obtain ⟨c, p⟩ := reachable_init W N evs s h
  unfold terminated at ht
  simp only [Bool.and_eq_true, beq_iff_eq, decide_eq_true_eq] at ht
  obtain ⟨⟨h1, h2⟩, h3⟩ := ht
  have hnum := p.afterStop (Or.inr (Or.inr (Or.inr h2)))
  have ht0 := c.tIdle (Or.inl h1)
  have hs0 := c.sIdle (Or.inr (Or.inr (Or.inr h2)))
  have hc := c.cons
  have htot := c.total
  unfold inTransit pos workersTotal at *
  rw [ht0, hs0] at hc
  omega

/-- **what "complete" has to mean (D22).** `C02_final` speaks about *terminated* states: ticker idle, every worker exited
**and the stopper done**. The code's notion of completion is the manager's wait group. Since `fix:` 752177e the goroutine
that stops the pool is counted in it (fact `fact_pool_Start`: `runningWorkers.Add(1)` … `defer … Done()` around `stop()`),
so "the wait group is empty" is `terminated`. Before, it only meant "every worker exited" — and that is not enough: -/
theorem workers_exited_is_not_complete :
    ∃ (evs : List Ev) (s : State), run false (init 1 0) evs = some s ∧ s.tpc = .idle ∧ s.exited = workersTotal s ∧
      s.requested ≠ s.started + s.dropped + s.refused + s.discarded :=
  ⟨[.tickCheck 3, .tickLock, .tickSwap, .tickBroadcast, .tickUnlock, .tickReport,
    .wToTest, .wTestEmpty, .wTake, .wNext, .envCancel, .stopSetFlag, .wFinish, .wExit], _, rfl, by decide⟩

/-- C02 (dropped only if pending): the dropped count only grows by the positive old value a tick's
or the shutdown's swap returned, i.e. by requests that were still pending when they were superseded
or triggering stopped — and never once the limit has been seen reached. -/
theorem C02_drop_only_if_pending (s s' : State) (e : Ev) (h : step false s e = some s') :
    s'.dropped = s.dropped ∨
    (e = .tickReport ∧ s.tLim = false ∧ s'.dropped = s.dropped + pos s.tOld) ∨
    (e = .stopReport ∧ s.sLim = false ∧ s'.dropped = s.dropped + pos s.sOld) := by
  cases e <;> simp only [step, Bool.false_eq_true, false_or, true_and, Bool.not_false, Bool.true_and] at h <;>
    (repeat' split at h) <;> cases h <;> simp_all

/-- C02 (limit silent): whatever is swapped out after the limit has been seen reached is discarded
silently, never reported as dropped. -/
theorem C02_limit_silent (s s' : State) (h : step false s .stopReport = some s') (hl : s.sLim = true) :
    s'.dropped = s.dropped ∧ s'.discarded = s.discarded + pos s.sOld := by
  simp only [step] at h
  split at h
  · simp only [hl, if_true] at h; cases h; simp
  · cases h

/-- the limit flag a reporter uses was read under the pool lock, before its swap -/
theorem C02_limit_read_before_swap (s s' : State) (h : step false s .stopSwap = some s') :
    s'.sLim = limitReached s ∧ s'.sOld = s.num ∧ s'.num = 0 := by
  simp only [step] at h
  split at h
  · cases h; simp
  · cases h

/-! ### the pinned tree -/

/-- D4: a tick that passed the context check installs its requests after the pool has stopped:
7 requested, nothing started, nothing dropped, 7 pending forever. -/
theorem legacy_tick_after_stop :
    ∃ s, run true (init 0 0) [.tickCheck 7, .envCancel, .stopSetFlag, .stopLock, .stopSwap, .stopBroadcast, .stopUnlock,
        .stopReport, .tickLock, .tickSwap, .tickBroadcast, .tickUnlock, .tickReport] = some s ∧
      terminated s = true ∧ s.requested = 7 ∧ s.started = 0 ∧ s.dropped = 0 ∧ s.num = 7 := ⟨_, rfl, by decide⟩

/-- D5: limit 1, one worker; a tick of 5 lands between the limit path's discard and its cancel:
5 requests that cannot start solely because of the limit are reported as dropped. -/
theorem legacy_limit_leftovers_dropped :
    ∃ s, run true (init 1 1) [.tickCheck 1, .tickLock, .tickSwap, .tickBroadcast, .tickUnlock, .tickReport,
        .wToTest, .wTestEmpty, .wTake, .wNext, .wFinish,
        .tickCheck 1, .tickLock, .tickSwap, .tickBroadcast, .tickUnlock, .tickReport,
        .wToTest, .wTestEmpty, .wTake, .wNext, .wLimitSwap,
        .tickCheck 5, .tickLock, .tickSwap, .tickBroadcast, .tickUnlock, .tickReport,
        .wLimitCancel, .stopSetFlag, .stopLock, .stopSwap, .stopBroadcast, .stopUnlock, .stopReport] = some s ∧
      s.started = 1 ∧ s.dropped = 5 := ⟨_, rfl, by decide⟩

-- non-vacuity: the same two schedules on the repaired pool: the late tick is refused, leftovers discarded
example : ∃ s, run false (init 0 0) [.tickCheck 7, .envCancel, .stopSetFlag, .stopLock, .stopSwap, .stopBroadcast,
    .stopUnlock, .stopReport, .tickLock, .tickRefuse] = some s ∧ terminated s = true ∧ s.requested = 0 ∧ s.num = 0 :=
  ⟨_, rfl, by decide⟩

end F1.Props.C02
