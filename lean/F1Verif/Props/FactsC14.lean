/-
C14 — regenerated facts: the anchored functions still read as the model of C14 assumes.
`Generated.*` is rewritten from /repo's working tree on every run; `Expected.*` is what the model was written against.
-/
import F1Verif.Generated.Facts
import F1Verif.Expected
namespace F1.Props.FactsC14

-- (file_validateCommonFields, file_validateCommonFieldsOfStage, file_validateConstantStage, file_validateRampStage, file_validateStagedStage, file_validateGaussianStage, file_validateUsersStage: re-proved semantically on the regenerated MiniGo programs, see Props/Refine*.lean)

theorem fact_rate_ParseRate : F1.Generated.skel_rate_ParseRate = F1.Expected.skel_rate_ParseRate := by rfl
theorem fact_rate_startsWithLetter : F1.Generated.skel_rate_startsWithLetter = F1.Expected.skel_rate_startsWithLetter := by rfl
theorem fact_staged_ParseStages : F1.Generated.skel_staged_ParseStages = F1.Expected.skel_staged_ParseStages := by rfl
theorem fact_api_NewDistribution : F1.Generated.skel_api_NewDistribution = F1.Expected.skel_api_NewDistribution := by rfl
theorem fact_constant_Calculate : F1.Generated.skel_constant_Calculate = F1.Expected.skel_constant_Calculate := by rfl
theorem fact_constant_Builder : F1.Generated.skel_constant_Builder = F1.Expected.skel_constant_Builder := by rfl
theorem fact_staged_Builder : F1.Generated.skel_staged_Builder = F1.Expected.skel_staged_Builder := by rfl
theorem fact_staged_Calculate : F1.Generated.skel_staged_Calculate = F1.Expected.skel_staged_Calculate := by rfl
theorem fact_ramp_Builder : F1.Generated.skel_ramp_Builder = F1.Expected.skel_ramp_Builder := by rfl
theorem fact_ramp_Calculate : F1.Generated.skel_ramp_Calculate = F1.Expected.skel_ramp_Calculate := by rfl
theorem fact_gauss_Builder : F1.Generated.skel_gauss_Builder = F1.Expected.skel_gauss_Builder := by rfl
theorem fact_gauss_Calculate : F1.Generated.skel_gauss_Calculate = F1.Expected.skel_gauss_Calculate := by rfl
theorem fact_gauss_CalculateVolume : F1.Generated.skel_gauss_CalculateVolume = F1.Expected.skel_gauss_CalculateVolume := by rfl
theorem fact_gauss_parseRateToTPS : F1.Generated.skel_gauss_parseRateToTPS = F1.Expected.skel_gauss_parseRateToTPS := by rfl
theorem fact_users_Builder : F1.Generated.skel_users_Builder = F1.Expected.skel_users_Builder := by rfl
theorem fact_runcmd_Cmd : F1.Generated.skel_runcmd_Cmd = F1.Expected.skel_runcmd_Cmd := by rfl
theorem fact_runcmd_Execute : F1.Generated.skel_runcmd_Execute = F1.Expected.skel_runcmd_Execute := by rfl
theorem fact_run_NewRun : F1.Generated.skel_run_NewRun = F1.Expected.skel_run_NewRun := by rfl
theorem fact_file_ParseConfigFile : F1.Generated.skel_file_ParseConfigFile = F1.Expected.skel_file_ParseConfigFile := by rfl
theorem fact_file_parseStage : F1.Generated.skel_file_parseStage = F1.Expected.skel_file_parseStage := by rfl
theorem fact_file_Builder : F1.Generated.skel_file_Builder = F1.Expected.skel_file_Builder := by rfl
theorem fact_f1_execute : F1.Generated.skel_f1_execute = F1.Expected.skel_f1_execute := by rfl
theorem fact_f1_ExecuteWithArgs : F1.Generated.skel_f1_ExecuteWithArgs = F1.Expected.skel_f1_ExecuteWithArgs := by rfl
theorem fact_f1_buildRootCmd : F1.Generated.skel_f1_buildRootCmd = F1.Expected.skel_f1_buildRootCmd := by rfl
theorem fact_trigger_GetBuilders : F1.Generated.skel_trigger_GetBuilders = F1.Expected.skel_trigger_GetBuilders := by rfl

end F1.Props.FactsC14
