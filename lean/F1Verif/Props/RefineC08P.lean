/- C08 (D20) — the regenerated `profiling.start` / `profiling.stop` (pkg/f1/profiling.go), which run around *every* command
executed on an F1 instance: `stop` closes the CPU profile file at most once — whatever `Close` answers, the file is
forgotten — so a later command on the same instance, with or without profile flags, cannot fail on a stale file. -/
import F1Verif.Props.RefineBase

namespace F1.Props.Refine
open F1.MiniGo F1.Generated.MG

def profState (file : Option Nat) (closeErr : Bool) (l : List (Val Rat)) : State Rat :=
  ⟨[("recv.cpuProfileFile", optRef file), ("file.Close()", if closeErr then .nonNil else .nil),
    ("file", l.getD 0 .nil), ("err", l.getD 1 .nil)], [], [], [],
   [("recv.memProfileFileName", []), ("recv.cpuProfileFileName", [])]⟩

/-- **the regenerated `profiling.stop`** (no memory profile requested): with a CPU profile file open it stops the profiler
and closes that file, returning an error iff `Close` failed; with none open it does nothing; **either way no file is
remembered afterwards** -/
theorem profiling_stop_refines (file : Option Nat) (closeErr : Bool) (l : List (Val Rat)) (fuel : Nat) :
    observe (runFn noExt fuel profiling_stop (profState file closeErr l)) ["recv.cpuProfileFile"] =
      some ([if file.isSome ∧ closeErr then .nonNil else .nil], [some .nil]) ∧
    traceOf (runFn noExt fuel profiling_stop (profState file closeErr l)) =
      (if file.isSome then ["pprof.StopCPUProfile"] else []) := by
  cases file <;> cases closeErr <;> simp [minigo, profiling_stop, profState]

/-- hence a second `stop` — the one that follows the *next* command — finds nothing to close and cannot fail -/
theorem profiling_stop_twice (file : Option Nat) (closeErr : Bool) (l : List (Val Rat)) (fuel : Nat) :
    (match runFn noExt fuel profiling_stop (profState file closeErr l) with
     | .ok (_, s) => observe (runFn noExt fuel profiling_stop { s with trace := [] }) ["recv.cpuProfileFile"] = some ([.nil], [some .nil]) ∧
         traceOf (runFn noExt fuel profiling_stop { s with trace := [] }) = []
     | .error _ => False) := by
  cases file <;> cases closeErr <;> simp [minigo, profiling_stop, profState]

/-- **the regenerated `profiling.start`** without `--cpuprofile`: nothing is created, nothing is remembered -/
theorem profiling_start_idle (file : Option Nat) (closeErr : Bool) (l : List (Val Rat)) (fuel : Nat) :
    observeC (runFn noExt fuel profiling_start (profState file closeErr l)) ["recv.cpuProfileFile"] ["os.Create"] =
      some ([.nil], [some (optRef file)], [0]) := by
  cases file <;> simp [minigo, profiling_start, profState]

end F1.Props.Refine
