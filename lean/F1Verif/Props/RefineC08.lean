/- C08 — the regenerated `Result.Failed`, `Snapshot.Iterations`, `IterationsStarted`, `HasDroppedIterations` refine the verdict model (see Props/RefineBase.lean for what a refinement theorem says and assumes) -/
import F1Verif.Props.RefineBase
import F1Verif.Model.Verdict
import F1Verif.Props.C08

namespace F1.Props.Refine
open F1.MiniGo F1.Generated.MG

/-! ### C08 — `Result.Failed`, `Snapshot.Iterations` -/

section verdict
open F1.Verdict

/-- the state `Failed` reads: the options, the last snapshot's counts, `r.Error()` and `snapshot.Iterations()` -/
def failedState (hasErr : Bool) (o : Opts) (c : Counts) : State Rat := State.ofVars [
  ("recv.Error()", if hasErr then .nonNil else .nil),
  ("recv.runOptions.IgnoreDropped", .bool o.ignoreDropped),
  ("recv.runOptions.MaxFailures", .int o.maxFailures),
  ("recv.runOptions.MaxFailuresRate", .int o.maxFailuresRate),
  ("recv.snapshot.DroppedIterationCount", .int c.dropped),
  ("recv.snapshot.FailedIterationDurations.Count", .int c.failed),
  ("recv.snapshot.SuccessfulIterationDurations.Count", .int c.succ),
  ("recv.snapshot.Iterations()", .int c.iterations)]

/-- the regenerated `Result.Failed` returns what `failedImpl` computes, for every error state, option set and
count triple -/
theorem result_Failed_refines (hasErr : Bool) (o : Opts) (c : Counts) :
    observe (runFn noExt 0 result_Failed (failedState hasErr o c)) [] = some ([.bool (failedImpl hasErr o c)], []) := by
  cases hasErr <;> simp [minigo, result_Failed, failedState, failedImpl]
  minigo_close

/-- … under the read lock, released on return, with the yield point inside -/
theorem result_Failed_locking (hasErr : Bool) (o : Opts) (c : Counts) :
    traceOf (runFn noExt 0 result_Failed (failedState hasErr o c)) =
      ["recv.mu.RLock", "hook result.nested", "recv.mu.RUnlock"] := by
  cases hasErr <;> simp [minigo, result_Failed, failedState]
  minigo_close

def countsState (c : Counts) : State Rat := State.ofVars [
  ("recv.DroppedIterationCount", .int c.dropped),
  ("recv.FailedIterationDurations.Count", .int c.failed),
  ("recv.SuccessfulIterationDurations.Count", .int c.succ)]

theorem snapshot_Iterations_refines (c : Counts) :
    observe (runFn noExt 0 snapshot_Iterations (countsState c)) [] = some ([.int c.iterations], []) := by
  simp [minigo, snapshot_Iterations, countsState, Counts.iterations]

theorem snapshot_IterationsStarted_refines (c : Counts) :
    observe (runFn noExt 0 snapshot_IterationsStarted (countsState c)) [] = some ([.int (c.succ + c.failed : Nat)], []) := by
  simp [minigo, snapshot_IterationsStarted, countsState]

theorem result_HasDropped_refines (d : Nat) :
    observe (runFn noExt 0 result_HasDropped (State.ofVars [("recv.snapshot.DroppedIterationCount", .int d)])) [] =
      some ([.bool (decide (d > 0))], []) := by
  simp [minigo, result_HasDropped]

/-- C08 about the code as it is now: the regenerated `Result.Failed` returns `true` exactly when the documented
predicate holds, for every error state, option combination and count triple — and it never panics (the evaluation
succeeds: no division, no error value) -/
theorem C08_generated_verdict (hasErr : Bool) (o : Opts) (c : Counts) :
    ∃ b, observe (runFn noExt 0 result_Failed (failedState hasErr o c)) [] = some ([.bool b], []) ∧
      (b = true ↔ FailedSpec hasErr o c) :=
  ⟨failedImpl hasErr o c, result_Failed_refines hasErr o c, F1.Props.C08.C08_verdict hasErr o c⟩

/-- non-vacuity: the D7 witness (1 failure in 17 against a 5 % tolerance) evaluates to "failed" on the regenerated code -/
example : observe (runFn noExt 0 result_Failed (failedState false ⟨false, 0, 5⟩ ⟨16, 1, 0⟩)) [] =
    some ([.bool true], []) := by
  rw [result_Failed_refines]; decide

end verdict


end F1.Props.Refine
