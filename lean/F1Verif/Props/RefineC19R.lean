/- C19 / C01 — the regenerated `Result.Summary`, `Progress`, `SnapshotProgress`, `GetTotals`, `Snapshot`, `AddError`
(internal/run/result.go): the data a summary or a progress line is rendered *from* is, field by field, the result's own
snapshot — each count from the accumulator of its own outcome — together with the result's own `Error()` and `Failed()`;
the snapshot is replaced under the write lock, read under the read lock. (What the templates then print from that data is
`Props/C19`.) -/
import F1Verif.Props.RefineBase

namespace F1.Props.Refine
open F1.MiniGo F1.Generated.MG

def resState (succ failed dropped its started : Int) (err : Option Nat) (isFailed : Bool) : State Rat :=
  State.ofVars [("recv.snapshot.SuccessfulIterationDurations.Count", .int succ),
    ("recv.snapshot.FailedIterationDurations.Count", .int failed), ("recv.snapshot.DroppedIterationCount", .int dropped),
    ("recv.snapshot.SuccessfulIterationDurations", .ref 1), ("recv.snapshot.FailedIterationDurations", .ref 2),
    ("recv.snapshot.SuccessfulIterationDurationsForPeriod", .ref 3), ("recv.snapshot.Period", .int 1000000000),
    ("recv.duration()", .int 42), ("recv.Error()", optRef err), ("recv.Failed()", .bool isFailed),
    ("recv.LogFilePath", .ref 4), ("recv.snapshot.Iterations()", .int its), ("recv.snapshot.IterationsStarted()", .int started)]

/-- **the regenerated `Result.Summary`**: the final summary is rendered from the successful / failed / dropped counts of the
result's snapshot — each from its own accumulator — the result's own error and verdict, under the read lock -/
theorem result_Summary_refines (succ failed dropped its started : Int) (err : Option Nat) (isFailed : Bool) (ext : Ext Rat) :
    observe (runFn ext 0 result_Summary (resState succ failed dropped its started err isFailed))
        ["$lit.views.ResultData.SuccessfulIterationCount", "$lit.views.ResultData.FailedIterationCount",
         "$lit.views.ResultData.DroppedIterationCount", "$lit.views.ResultData.Error", "$lit.views.ResultData.Failed",
         "$lit.views.ResultData.Iterations", "$lit.views.ResultData.IterationsStarted",
         "$lit.views.ResultData.SuccessfulIterationDurations", "$lit.views.ResultData.FailedIterationDurations"] =
      some ([ext "recv.views.Result" 0 [.nonNil]],
        [some (.int succ), some (.int failed), some (.int dropped), some (optRef err), some (.bool isFailed),
         some (.int its), some (.int started), some (.ref 1), some (.ref 2)]) ∧
    traceOf (runFn ext 0 result_Summary (resState succ failed dropped its started err isFailed)) =
      ["recv.mu.RLock", "hook result.nested", "recv.mu.RUnlock"] := by
  simp [minigo, result_Summary, resState]

/-- **the regenerated `Result.Progress`**: a progress line is rendered from the same snapshot -/
theorem result_Progress_refines (succ failed dropped its started : Int) (err : Option Nat) (isFailed : Bool) (ext : Ext Rat) :
    observe (runFn ext 0 result_Progress (resState succ failed dropped its started err isFailed))
        ["$lit.views.ProgressData.SuccessfulIterationCount", "$lit.views.ProgressData.FailedIterationCount",
         "$lit.views.ProgressData.DroppedIterationCount", "$lit.views.ProgressData.SuccessfulIterationDurationsForPeriod",
         "$lit.views.ProgressData.Period"] =
      some ([ext "recv.views.Progress" 0 [.nonNil]],
        [some (.int succ), some (.int failed), some (.int dropped), some (.ref 3), some (.int 1000000000)]) ∧
    traceOf (runFn ext 0 result_Progress (resState succ failed dropped its started err isFailed)) =
      ["recv.mu.RLock", "recv.mu.RUnlock"] := by
  simp [minigo, result_Progress, resState]

/-- the snapshot is replaced only under the write lock (by a progress tick: the period's snapshot; at the end: the totals),
and read under the read lock -/
theorem result_snapshot_locking (ext : Ext Rat) (period : Int) :
    traceOf (runFn ext 0 result_SnapshotProgress (State.ofVars [("arg0", .int period), ("recv.snapshot", .ref 0)])) =
      ["recv.mu.Lock", "recv.mu.Unlock"] ∧
    observe (runFn ext 0 result_SnapshotProgress (State.ofVars [("arg0", .int period), ("recv.snapshot", .ref 0)])) ["recv.snapshot"] =
      some ([], [some (ext "recv.progressStats.Snapshot" 0 [.int period])]) ∧
    traceOf (runFn ext 0 result_GetTotals (State.ofVars [("recv.progressStats.Total()", .ref 9), ("recv.snapshot", .ref 0)])) =
      ["recv.mu.Lock", "recv.mu.Unlock"] ∧
    observe (runFn ext 0 result_GetTotals (State.ofVars [("recv.progressStats.Total()", .ref 9), ("recv.snapshot", .ref 0)])) ["recv.snapshot"] =
      some ([], [some (.ref 9)]) ∧
    traceOf (runFn ext 0 result_Snapshot (State.ofVars [("recv.snapshot", .ref 5)])) = ["recv.mu.RLock", "recv.mu.RUnlock"] ∧
    observe (runFn ext 0 result_Snapshot (State.ofVars [("recv.snapshot", .ref 5)])) [] = some ([.ref 5], []) := by
  simp [minigo, result_SnapshotProgress, result_GetTotals, result_Snapshot]

/-- an error is appended (never replaces an earlier one), under the write lock -/
theorem result_AddError_refines (ext : Ext Rat) (errs : List (Val Rat)) (e : Val Rat) :
    (match runFn ext 0 result_AddError ⟨[("arg0", e), ("recv", .ref 0), ("recv.errors", .nil)], [], [], [],
        [("recv.errors", errs.map fun x => [("", x)])]⟩ with
     | .ok (_, s) => lookup "recv.errors" s.arrs = some ((errs ++ [e]).map fun x => [("", x)]) ∧
         s.trace.reverse = ["recv.mu.Lock", "recv.mu.Unlock"]
     | .error _ => False) := by
  simp [minigo, result_AddError]

/-! #### the structured-log form -/

def logState (started succ failed dropped dur : Int) (isFailed : Bool) (err : Option Nat) : State Rat :=
  State.ofVars [("recv.IterationsStarted", .int started), ("recv.SuccessfulIterationCount", .int succ),
    ("recv.FailedIterationCount", .int failed), ("recv.DroppedIterationCount", .int dropped), ("recv.Duration", .int dur),
    ("recv.Period", .int dur), ("recv.Failed", .bool isFailed), ("recv.Error", optRef err)]

/-- **the regenerated `ResultData.Log`** (D14): the `iteration_stats` group of the final log record is built from the
result's own started / successful / failed / dropped counts, in that order, and its duration; the record is an error
record ("Load Test Failed") iff the result is failed, an info record ("Load Test Passed") otherwise -/
theorem views_Result_Log_refines (ext : Ext Rat) (started succ failed dropped dur : Int) (isFailed : Bool) (err : Option Nat) :
    (match runFn ext 0 views_Result_Log (logState started succ failed dropped dur isFailed err) with
     | .ok (_, s) =>
       lookup "log.IterationStatsGroup" s.arrs =
         some [[("0", .int started), ("1", .int succ), ("2", .int failed), ("3", .int dropped), ("4", .int dur)]] ∧
       s.trace = [if isFailed then "arg0.Error(…)" else "arg0.Info(…)"]
     | .error _ => False) := by
  cases isFailed <;> cases err <;> simp [minigo, views_Result_Log, logState]

/-- **the regenerated `ProgressData.Log`**: a progress record carries the period's counts, and as "started" their sum -/
theorem views_Progress_Log_refines (ext : Ext Rat) (succ failed dropped dur : Int) :
    (match runFn ext 0 views_Progress_Log (logState 0 succ failed dropped dur false none) with
     | .ok (_, s) =>
       lookup "log.IterationStatsGroup" s.arrs =
         some [[("0", .int (succ + failed + dropped)), ("1", .int succ), ("2", .int failed), ("3", .int dropped), ("4", .int dur)]] ∧
       s.trace = ["arg0.Info(…)"]
     | .error _ => False) := by
  simp [minigo, views_Progress_Log, logState]

end F1.Props.Refine
