/-
C09 — tick cadence: one rate evaluation immediately, then at most one per interval.
-/
import F1Verif.Model.Cadence
namespace F1.Props.C09
open F1.Cadence

/-- one evaluation immediately, then one per tick received: never more evaluations (plus a tick
still buffered) than 1 + ticks fired -/
def Count (s : State) : Prop :=
  (s.pc = .init → s.evals = [] ∧ s.buffered = false) ∧
  (s.pc ≠ .init → s.evals.length + (if s.buffered = true then 1 else 0) ≤ 1 + s.delivered)

theorem count_step (s s' : State) (e : Ev) (h : Count s) (hs : step s e = some s') : Count s' := by
  obtain ⟨h0, h1⟩ := h
  cases hb : s.buffered <;> simp only [hb] at h0 h1 <;>
  cases e <;> simp only [step] at hs <;> (repeat' split at hs) <;> cases hs <;>
    (constructor <;> intro hp <;> simp_all <;> omega)

theorem C09_count (i : Int) (evs : List Ev) (s : State) (h : run { interval := i } evs = some s) :
    s.evals.length ≤ 1 + s.delivered := by
  have key : ∀ (evs : List Ev) (a b : State), Count a → run a evs = some b → Count b := by
    intro evs
    induction evs with
    | nil => intro a b h1 hr; simp only [run] at hr; cases hr; exact h1
    | cons e es ih =>
      intro a b h1 hr
      simp only [run] at hr
      split at hr
      · cases hr
      · rename_i a1 ha1
        exact ih a1 b (count_step a a1 e h1 ha1) hr
  obtain ⟨k1, k2⟩ := key evs { interval := i } s ⟨by simp, by simp⟩ h
  by_cases hp : s.pc = .init
  · rw [(k1 hp).1]; simp
  · have := k2 hp
    split at this <;> omega

/-- the arithmetic behind the cadence bound: if the k-th tick fires no earlier than
`created + k·I` with `created ≥ t0`, then at any time `t` at most `(t − t0)/I` ticks have fired -/
theorem ticks_by_time (I t0 created now : Int) (k : Nat) (hI : 0 < I) (hc : t0 ≤ created)
    (hk : created + (k : Int) * I ≤ now) : (k : Int) ≤ (now - t0) / I := by
  have h1 : (k : Int) * I ≤ now - t0 := by omega
  exact (Int.le_ediv_iff_mul_le hI).mpr h1

/-- C09 (cadence): by elapsed time `e = now − t0` since the first evaluation at most
`1 + ⌊e / interval⌋` evaluations have been made — whatever the scheduling delays of the ticking
goroutine (delays only postpone evaluations). -/
theorem C09_cadence (I : Int) (hI : 0 < I) (s : State) (hi : s.interval = I)
    (hcount : s.evals.length ≤ 1 + s.delivered) (hcreated : s.t0 ≤ s.created)
    (hdeliv : s.delivered > 0 → s.created + (s.delivered : Int) * s.interval ≤ s.now) (hnow : s.t0 ≤ s.now) :
    (s.evals.length : Int) ≤ 1 + (s.now - s.t0) / I := by
  by_cases hd : s.delivered = 0
  · have : (0 : Int) ≤ (s.now - s.t0) / I := Int.ediv_nonneg (by omega) (Int.le_of_lt hI)
    omega
  · have := ticks_by_time I s.t0 s.created s.now s.delivered hI hcreated (by rw [← hi]; exact hdeliv (by omega))
    omega


/-- timing facts of reachable states: the ticker is created after the first evaluation, its k-th
tick fired no earlier than `created + k·interval`, and model time never runs backwards -/
def Timing (s : State) : Prop :=
  ((s.pc = .ready ∨ s.pc = .haveValue ∨ s.pc = .stopped) → s.t0 ≤ s.created ∧ s.created ≤ s.now) ∧
  (s.delivered > 0 → s.created + ((s.delivered : Nat) : Int) * s.interval ≤ s.now ∧ (s.pc = .ready ∨ s.pc = .haveValue ∨ s.pc = .stopped)) ∧
  (s.pc ≠ .init → s.t0 ≤ s.now)

theorem timing_step (s s' : State) (e : Ev) (h : Timing s) (hs : step s e = some s') : Timing s' := by
  obtain ⟨h1, h2, h3⟩ := h
  cases e <;> simp only [step] at hs <;> (repeat' split at hs) <;> cases hs <;>
    (refine ⟨?_, ?_, ?_⟩ <;> intro hp <;> simp_all <;> (first | omega | skip))
  all_goals (first | (rename_i hc; obtain ⟨hc1, hc2, hc3⟩ := hc; rcases hc1 with hc1 | hc1 <;> simp [hc1]) | skip)

theorem timing_reachable (i : Int) (evs : List Ev) (s : State) (h : run { interval := i } evs = some s) :
    Timing s ∧ s.interval = i := by
  have key : ∀ (evs : List Ev) (a b : State), Timing a → run a evs = some b → Timing b ∧ b.interval = a.interval := by
    intro evs
    induction evs with
    | nil => intro a b h1 hr; simp only [run] at hr; cases hr; exact ⟨h1, rfl⟩
    | cons e es ih =>
      intro a b h1 hr
      simp only [run] at hr
      split at hr
      · cases hr
      · rename_i a1 ha1
        obtain ⟨k1, k2⟩ := ih a1 b (timing_step a a1 e h1 ha1) hr
        refine ⟨k1, ?_⟩
        rw [k2]
        cases e <;> simp only [step] at ha1 <;> (repeat' split at ha1) <;> cases ha1 <;> rfl
  exact key evs { interval := i } s ⟨by simp, by simp, by simp⟩ h

/-- C09 (cadence), for every reachable state of the trigger loop: evaluations ≤ 1 + ⌊elapsed/interval⌋ -/
theorem C09_cadence_reachable (I : Int) (hI : 0 < I) (evs : List Ev) (s : State)
    (h : run { interval := I } evs = some s) (hp : s.pc ≠ .init) :
    (s.evals.length : Int) ≤ 1 + (s.now - s.t0) / I := by
  obtain ⟨⟨t1, t2, t3⟩, hi⟩ := timing_reachable I evs s h
  have hc := C09_count I evs s h
  by_cases hd : s.delivered = 0
  · have : (0 : Int) ≤ (s.now - s.t0) / I := Int.ediv_nonneg (by have := t3 hp; omega) (Int.le_of_lt hI)
    omega
  · obtain ⟨d1, d2⟩ := t2 (by omega)
    exact C09_cadence I hI s hi hc (t1 d2).1 (fun _ => d1) (t3 hp)

/-- C09 (the request is the value): a request is accepted by the model only if it carries exactly
the value the pending evaluation returned -/
theorem C09_request_is_value (s s' : State) (v : Int) (h : step s (.request v) = some s') :
    v = s.value ∧ s'.requests = v :: s.requests := by
  simp only [step] at h
  split at h
  · rename_i hc; cases h; exact ⟨hc.2, rfl⟩
  · cases h

-- non-vacuity: a run with a late receive (the tick due at 100 is taken at 170; the next is still due at 200)
example : ∃ s, run { interval := 100 } [.evalFirst 0 5, .request 5, .createTicker 1, .deliver 101, .recvEval 170 6, .request 6,
    .deliver 201, .recvEval 202 7, .request 7, .stop] = some s ∧ s.evals.length = 3 ∧ s.requests = [7, 6, 5] :=
  ⟨_, rfl, by decide⟩

end F1.Props.C09
