/-
C05 (time): a run stops requesting iterations at the earliest of max-duration less the 10 ms guard, the trigger's
own duration (less the guard), the iteration limit, or cancellation; it then waits for the iterations in flight
for at most the completion timeout, and gives up on them only when that timeout has run in full.
-/
import F1Verif.Model.Deadline

namespace F1.Props.C05Time
open F1.Deadline

theorem omin_le_left (a : Int) (o : Option Int) : omin a o ≤ a := by
  cases o <;> simp [omin]; omega

theorem omin_le_some (a b : Int) : omin a (some b) ≤ b := by simp [omin]; omega

theorem omin_cases (a : Int) (o : Option Int) : omin a o = a ∨ o = some (omin a o) := by
  cases o with
  | none => left; rfl
  | some b =>
    simp only [omin]
    rcases Int.le_total a b with h | h
    · left; omega
    · right; congr 1; omega

/-- the deadline is the shorter of max-duration and the trigger's own duration, less the guard (never negative) -/
theorem C05_deadline (c : Cfg) :
    c.deadline = max 0 ((if 0 < c.trigDur then min c.maxDur c.trigDur else c.maxDur) - guard) := by
  unfold Cfg.deadline Cfg.duration
  split <;> split <;> omega

theorem C05_deadline_le_maxDur (c : Cfg) (h : guard ≤ c.maxDur) : c.deadline ≤ c.maxDur - guard := by
  rw [C05_deadline]; split <;> omega

theorem C05_deadline_le_trigDur (c : Cfg) (h0 : guard ≤ c.trigDur) : c.deadline ≤ c.trigDur - guard := by
  have : (0 : Int) < guard := by decide
  rw [C05_deadline]; split <;> omega

/-- C05 (stops on time): triggering stops no later than the deadline, the cancellation and the limit … -/
theorem C05_stop_le (c : Cfg) :
    c.stopAt ≤ c.deadline ∧ (∀ t, c.cancelAt = some t → c.stopAt ≤ t) ∧ (∀ t, c.limitAt = some t → c.stopAt ≤ t) := by
  refine ⟨?_, ?_, ?_⟩
  · exact Int.le_trans (omin_le_left _ _) (omin_le_left _ _)
  · intro t ht
    refine Int.le_trans (omin_le_left _ _) ?_
    unfold Cfg.trigDone; rw [ht]; exact omin_le_some _ _
  · intro t ht
    unfold Cfg.stopAt; rw [ht]; exact omin_le_some _ _

/-- … and exactly at the earliest of them. -/
theorem C05_stop_earliest (c : Cfg) :
    c.stopAt = c.deadline ∨ c.cancelAt = some c.stopAt ∨ c.limitAt = some c.stopAt := by
  rcases omin_cases c.trigDone c.limitAt with h | h
  · rcases omin_cases c.deadline c.cancelAt with h' | h'
    · left; unfold Cfg.stopAt; rw [h]; exact h'
    · right; left
      have e : c.stopAt = c.trigDone := h
      rw [e]; exact h'
  · right; right; exact h

/-- the first `select` always has a ready case at that instant (the run cannot sit in it for ever) -/
theorem C05_some_branch_fires (c : Cfg) : ∃ b, c.Fires b := by
  rcases omin_cases c.trigDone c.limitAt with h | h
  · exact ⟨.trig, h.symm⟩
  · exact ⟨.pool, h⟩

/-- C05 (bounded wait): whatever case fired, `run` returns within the completion timeout of the stop … -/
theorem C05_wait_bounded (c : Cfg) (b : Branch) (ht : 0 ≤ c.timeout) (hd : c.stopAt ≤ c.drain c.stopAt) :
    c.stopAt ≤ (c.outcome b).1 ∧ (c.outcome b).1 ≤ c.stopAt + c.timeout := by
  cases b <;> simp only [Cfg.outcome]
  · split <;> simp <;> omega
  · split <;> simp <;> omega
  · omega

/-- … if it returns without giving up, every iteration in flight has finished (`drain` has passed, or the pool
had completed on its own) … -/
theorem C05_finished_unless_timeout (c : Cfg) (b : Branch) (h : (c.outcome b).2 = false) :
    b = .pool ∨ c.drain c.stopAt ≤ (c.outcome b).1 := by
  cases b <;> simp only [Cfg.outcome] at h ⊢
  · right; by_cases hh : c.drain c.stopAt ≤ c.stopAt + c.timeout <;> simp [hh] at h ⊢
  · right; by_cases hh : c.drain c.stopAt ≤ c.stopAt + c.timeout <;> simp [hh] at h ⊢
  · left; trivial

/-- … and it gives up only when the completion timeout has run in full. -/
theorem C05_gives_up_after_full_timeout (c : Cfg) (b : Branch) (h : (c.outcome b).2 = true) :
    (c.outcome b).1 = c.stopAt + c.timeout ∧ c.stopAt + c.timeout < c.drain c.stopAt := by
  cases b <;> simp only [Cfg.outcome] at h ⊢
  · by_cases hh : c.drain c.stopAt ≤ c.stopAt + c.timeout <;> simp [hh] at h ⊢
    omega
  · by_cases hh : c.drain c.stopAt ≤ c.stopAt + c.timeout <;> simp [hh] at h ⊢
    omega
  · simp at h

instance (c : Cfg) (b : Branch) : Decidable (c.Fires b) := by
  cases b <;> simp only [Cfg.Fires] <;> infer_instance

-- non-vacuity: 1 s max-duration, a 300 ms trigger, cancelled at 250 ms, 40 ms to drain, 10 s timeout
def ex : Cfg := ⟨1000000000, 300000000, 10000000000, some 250000000, none, fun t => t + 40000000⟩
example : ex.deadline = 290000000 ∧ ex.stopAt = 250000000 ∧ ex.Fires .ctx ∧ ex.Fires .trig ∧
    ex.outcome .ctx = (290000000, false) := by decide

end F1.Props.C05Time
