/- C18 — the regenerated `schedules.start` / `currentFrequency` of the periodic runner refine the schedule walk of the
runner model (see Props/RefineBase.lean for what a refinement theorem says and assumes) -/
import F1Verif.Props.RefineBase
import F1Verif.Model.RateRun

namespace F1.Props.Refine
open F1.MiniGo F1.Generated.MG F1.RateRun

/-- a schedule as the code sees it -/
def schedRec (p : Int × Int) : List (String × Val Rat) := [("StartDelay", .int p.1), ("Frequency", .int p.2)]

/-- tickers and timers are externals; the value they return *is* the period / delay they were created with, so that the
state shows which ticker and which timer are armed -/
def timeExt : Ext Rat := fun f _ args =>
  if f = "time.NewTicker" ∨ f = "time.NewTimer" then (match args with | [v] => v | _ => .nil) else .nil

def schedState (list : List (Int × Int)) (cur index : Int) (ticker timer : Val Rat) : State Rat :=
  ⟨[("recv.currentScheduleIndex", .int cur), ("recv.ticker", ticker), ("recv.nextScheduleTimer", timer), ("arg0", .int index),
    ("nextIndex", .int 0)], [], [], [], [("recv.list", list.map schedRec)]⟩

/-- `start(index)` beyond the list changes nothing and touches neither ticker nor timer -/
theorem schedules_start_out_of_range (list : List (Int × Int)) (cur index : Int) (ticker timer : Val Rat)
    (h : index ≥ list.length) :
    observe (runFn timeExt 0 schedules_start (schedState list cur index ticker timer))
        ["recv.currentScheduleIndex", "recv.ticker", "recv.nextScheduleTimer"] =
      some ([], [some (.int cur), some ticker, some timer]) ∧
    traceOf (runFn timeExt 0 schedules_start (schedState list cur index ticker timer)) = [] := by
  simp [minigo, schedules_start, schedState, h]

/-- `start(index)` inside the list: the old ticker is stopped and a new one ticks with that schedule's frequency; the old
timer is stopped and — when a further schedule exists — a new one is armed with *its* start delay (the model's
`startSchedule`: `idx := index`, `timerArmed := index + 1 < n`) -/
theorem schedules_start_refines (pre : List (Int × Int)) (sd fr : Int) (post : List (Int × Int)) (cur : Int)
    (ticker timer : Val Rat) :
    observe (runFn timeExt 0 schedules_start (schedState (pre ++ (sd, fr) :: post) cur pre.length ticker timer))
        ["recv.currentScheduleIndex", "recv.ticker", "recv.nextScheduleTimer"] =
      some ([], [some (.int pre.length), some (.int fr),
                 some (match post with | [] => timer | (sd', _) :: _ => .int sd')]) ∧
    traceOf (runFn timeExt 0 schedules_start (schedState (pre ++ (sd, fr) :: post) cur pre.length ticker timer)) =
      ["recv.ticker.Stop", "recv.nextScheduleTimer.Stop"] := by
  have h0 : ¬ ((pre.length : Int) ≥ (pre.length : Int) + ((post.length : Int) + 1)) := by omega
  have h1 : ¬ ((pre.length : Int) < 0) := by omega
  have hidx : ∀ (x : List (String × Val Rat)) (l : List (List (String × Val Rat))),
      (List.map schedRec pre ++ x :: l)[pre.length]? = some x := by
    intro x l; simp
  cases post with
  | nil =>
    simp [minigo, schedules_start, schedState, timeExt, schedRec, h0, h1, hidx]
    exact ⟨fun h => by omega, by omega⟩
  | cons p post' =>
    obtain ⟨sd', fr'⟩ := p
    have h2 : ¬ ((pre.length : Int) + 1 ≥ (pre.length : Int) + ((post'.length : Int) + 1 + 1)) := by omega
    have h3 : ¬ ((pre.length : Int) + 1 < 0) := by omega
    have hidx2 : ∀ (x y : List (String × Val Rat)) (l : List (List (String × Val Rat))),
        (List.map schedRec pre ++ x :: y :: l)[((pre.length : Int) + 1).toNat]? = some y := by
      intro x y l
      have : ((pre.length : Int) + 1).toNat = pre.length + 1 := by omega
      rw [this]; simp
    simp [minigo, schedules_start, schedState, timeExt, schedRec, h0, h1, h2, h3, hidx, hidx2]
    exact ⟨fun h => by omega, by omega⟩

/-- `currentFrequency` is the frequency of the schedule the index stands on -/
theorem schedules_currentFrequency_refines (pre : List (Int × Int)) (sd fr : Int) (post : List (Int × Int))
    (ticker timer : Val Rat) :
    observe (runFn timeExt 0 schedules_currentFrequency (schedState (pre ++ (sd, fr) :: post) pre.length 0 ticker timer)) [] =
      some ([.int fr], []) := by
  have h1 : ¬ ((pre.length : Int) < 0) := by omega
  have hidx : ∀ (x : List (String × Val Rat)) (l : List (List (String × Val Rat))),
      (List.map schedRec pre ++ x :: l)[pre.length]? = some x := by
    intro x l; simp
  simp [minigo, schedules_currentFrequency, schedState, schedRec, h1, hidx]

/-- **the regenerated `Runner.Stop`**: cancel, *then* wait until the runner's goroutine has signalled that it is gone -/
theorem runner_Stop_refines (ext : Ext Rat) : traceOf (runFn ext 0 runner_Stop (State.ofVars [])) = ["recv.cancel", "receive recv.stopped"] := by
  simp [minigo, runner_Stop]

/-- `Restart` hands one token to the runner's goroutine; `startFirst` / `startNext` start schedule 0 / the one after the
current; `stop` stops both the ticker and the next-schedule timer -/
theorem runner_helpers_refine (ext : Ext Rat) (cur : Int) :
    traceOf (runFn ext 0 runner_Restart (State.ofVars [])) = ["send recv.restart"] ∧
    observe (runFn ext 0 schedules_startFirst (State.ofVars [("recv.currentScheduleIndex", .int cur)])) ["$arg.recv.start.0"] =
      some ([], [some (.int 0)]) ∧
    observe (runFn ext 0 schedules_startNext (State.ofVars [("recv.currentScheduleIndex", .int cur)])) ["$arg.recv.start.0"] =
      some ([], [some (.int (cur + 1))]) ∧
    traceOf (runFn ext 0 schedules_stop (State.ofVars [])) = ["recv.ticker.Stop", "recv.nextScheduleTimer.Stop"] := by
  simp [minigo, runner_Restart, schedules_startFirst, schedules_startNext, schedules_stop]

end F1.Props.Refine
