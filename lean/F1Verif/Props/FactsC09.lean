/-
C09 — regenerated facts: the anchored functions still read as the model of C09 assumes.
`Generated.*` is rewritten from /repo's working tree on every run; `Expected.*` is what the model was written against.
-/
import F1Verif.Generated.Facts
import F1Verif.Expected
namespace F1.Props.FactsC09

theorem fact_api_NewIterationWorker : F1.Generated.skel_api_NewIterationWorker = F1.Expected.skel_api_NewIterationWorker := by rfl
theorem fact_pool_Trigger : F1.Generated.skel_pool_Trigger = F1.Expected.skel_pool_Trigger := by rfl

end F1.Props.FactsC09
