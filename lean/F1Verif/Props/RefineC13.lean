/- C13 — the regenerated closure of `WithJitter` refines the jitter step (see Props/RefineBase.lean for what a refinement
theorem says and assumes) -/
import F1Verif.Props.RefineBase
import F1Verif.Model.Jitter

namespace F1.Props.Refine
open F1.MiniGo F1.Generated.MG

section jitter
variable {F : Type} [FloatLike F]

/-- one tick of `WithJitter` as written, the float operations of the source one for one; `c` is what
`math.Cos(rand.Float64()·2π)` returned — a parameter: the theorems quantify over every value in `[−1, 1]` -/
def jitterStepG (multiple : F) (rate : Int) (balance c : F) : F × Int :=
  let vf : F := FloatLike.add (FloatLike.ofInt 1) (FloatLike.div (FloatLike.mul c multiple) (FloatLike.ofInt 100))
  let requested : F := FloatLike.add (FloatLike.ofInt rate) balance
  let proposed : F := FloatLike.mul requested vf
  let rounded : F := FloatLike.max (FloatLike.ofInt 0) (FloatLike.round proposed)
  (FloatLike.sub requested rounded, FloatLike.trunc rounded)

/-- externals of the jitter closure: the underlying rate function (`arg0`), the uniform source and the cosine -/
def jitterExt (rates : Nat → Int) (us cs : Nat → F) : Ext F := fun f k _ =>
  if f = "arg0" then .int (rates k)
  else if f = "rand.Float64" then .flt (us k)
  else if f = "math.Cos" then .flt (cs k)
  else .nil

def jitterState (multiple balance : F) (evals : Nat) (now : Int) : State F :=
  ⟨[("balance", .flt balance), ("arg1", .flt multiple), ("carg0", .int now)],
   [("arg0", evals), ("rand.Float64", evals), ("math.Cos", evals)], [], [], []⟩

/-- the regenerated closure of `WithJitter`, in any arithmetic: one evaluation of the underlying rate, one random
draw, and the step `jitterStepG`; the new balance is what was requested minus what was handed out -/
theorem jitter_body_refines (rates : Nat → Int) (us cs : Nat → F) (multiple balance : F) (evals : Nat) (now : Int) :
    observeC (runFn (jitterExt rates us cs) 0 jitter_body (jitterState multiple balance evals now))
        ["balance"] ["arg0", "rand.Float64", "math.Cos"] =
      some ([.int (jitterStepG multiple (rates evals) balance (cs evals)).2],
            [some (.flt (jitterStepG multiple (rates evals) balance (cs evals)).1)],
            [evals + 1, evals + 1, evals + 1]) := by
  simp [minigo, jitter_body, jitterState, jitterExt, jitterStepG]

/-- `multiple == 0`: `WithJitter` hands back the rate function itself (no closure, no balance) -/
theorem jitter_init_zero (multiple : F) (h : FloatLike.beq multiple (FloatLike.ofInt 0) = true) :
    observe (runFn (F := F) (fun _ _ _ => .nil) 0 jitter_init (State.ofVars [("arg0", .nonNil), ("arg1", .flt multiple)])) [] =
      some ([.nonNil], []) := by
  simp [minigo, jitter_init, h]

theorem jitter_init_nonzero (multiple : F) (h : FloatLike.beq multiple (FloatLike.ofInt 0) = false) :
    observe (runFn (F := F) (fun _ _ _ => .nil) 0 jitter_init (State.ofVars [("arg0", .nonNil), ("arg1", .flt multiple)])) ["balance"] =
      some ([], [some (.flt (FloatLike.ofLit 0 (-1)))]) := by
  simp [minigo, jitter_init, h]

end jitter
end F1.Props.Refine
