/-
C10 — step 2: in exact arithmetic the interpolation as written (`interpG`, which the regenerated ramp rate function was
shown to use) is the truncating integer division `interp` the theorems of Props/C10 are about.
-/
import F1Verif.Props.RefineC10
import F1Verif.Props.RefineC10S
import Mathlib.Data.Rat.Floor
import Mathlib.Algebra.Order.Floor.Ring
import Mathlib.Tactic.FieldSimp
import Mathlib.Tactic.Ring
import Mathlib.Tactic.Linarith

namespace F1.Props.Refine
open F1.MiniGo F1.Staged

/-- truncation toward zero of an integer ratio with a positive denominator is `Int.tdiv` -/
theorem trunc_ratio (a d : ℤ) (hd : 0 < d) :
    (FloatLike.trunc (((a : ℚ)) / (d : ℚ)) : ℤ) = a.tdiv d := by
  show (if (a:ℚ) / d ≥ 0 then ((a:ℚ) / d).floor else -((-((a:ℚ) / d)).floor)) = a.tdiv d
  have hdq : (0:ℚ) < d := by exact_mod_cast hd
  obtain ⟨n, rfl⟩ : ∃ n : ℕ, d = n := ⟨d.toNat, by omega⟩
  by_cases ha : 0 ≤ a
  · have : (a:ℚ) / ((n:ℤ):ℚ) ≥ 0 := div_nonneg (by exact_mod_cast ha) (le_of_lt hdq)
    rw [if_pos this]
    show ⌊(a:ℚ) / ((n:ℤ):ℚ)⌋ = _
    have h := Rat.floor_intCast_div_natCast a n
    push_cast at h ⊢
    rw [h, Int.tdiv_eq_ediv_of_nonneg ha]
  · have ha' : a < 0 := by omega
    have : ¬ ((a:ℚ) / ((n:ℤ):ℚ) ≥ 0) := by
      rw [not_le]; exact div_neg_of_neg_of_pos (by exact_mod_cast ha') hdq
    rw [if_neg this]
    show -⌊-((a:ℚ) / ((n:ℤ):ℚ))⌋ = _
    have e : -((a:ℚ) / ((n:ℤ):ℚ)) = (((-a : ℤ)) : ℚ) / (n : ℚ) := by push_cast; ring
    rw [e, Rat.floor_intCast_div_natCast]
    have : a.tdiv (n:ℤ) = -((-a).tdiv (n:ℤ)) := by rw [Int.neg_tdiv, neg_neg]
    rw [this, Int.tdiv_eq_ediv_of_nonneg (by omega : 0 ≤ -a)]

theorem interpG_rat (st : Stage) (o : Int) (hd : 0 < st.d) : interpG (F := Rat) st o = interp st o := by
  unfold interpG interp
  congr 1
  have hdq : ((st.d : ℤ) : ℚ) ≠ 0 := by
    have : (0:ℚ) < st.d := by exact_mod_cast hd
    exact ne_of_gt this
  have e : (FloatLike.mul (FloatLike.div (FloatLike.ofInt o : ℚ) (FloatLike.ofInt st.d)) (FloatLike.ofInt (st.e - st.s)) : ℚ) =
      (((o * (st.e - st.s) : ℤ)) : ℚ) / (st.d : ℚ) := by
    show ((o:ℚ) / (st.d:ℚ)) * (((st.e - st.s : ℤ)) : ℚ) = _
    push_cast; field_simp
  rw [e]
  exact trunc_ratio _ _ hd

/-- the regenerated ramp rate function in exact arithmetic is the model's `Ramp.rate` (positive ramp duration) -/
theorem ramp_rateFn_refines_exact (r : Ramp) (hd : 0 < r.duration) (t0 : Option Int) (now : Int) :
    observe (runFn (F := Rat) (fun _ _ _ => .nil) 0 F1.Generated.MG.ramp_rateFn_body (rampState r t0 now)) ["startTime"] =
      some ([.int (r.rate (t0.getD now) now)], [some (.int (t0.getD now))]) := by
  rw [ramp_rateFn_refines]
  unfold Ramp.rate Ramp.rateWith
  split
  · rfl
  · rw [interpG_rat _ _ hd]

/-- with positive stage durations the calculator step in exact arithmetic is the model's `Calc.rate` -/
theorem rateWith_interpG_rat (c : Calc) (hd : ∀ st ∈ c.rest, 0 < st.d) (now : Int) :
    c.rateWith (interpG (F := Rat)) now = c.rate now := by
  unfold Calc.rate Calc.rateWith
  obtain ⟨taken, ht⟩ := skip_suffix c.rest (c.start.getD now) now
  simp only []
  rcases hsk : (skip c.rest (c.start.getD now) now).1 with _ | ⟨st, rem⟩
  · rfl
  · have hmem : st ∈ c.rest := by rw [ht, hsk]; simp
    simp only [interpG_rat st _ (hd st hmem)]

/-- C10 (staged) about the code as it is now, exact arithmetic: one call of the regenerated `RateCalculator.Rate` returns
the model's `Calc.rate` — so every theorem of Props/C10 about sequences of `Calc.rate` queries (value within 1 of the
configured line, monotone within a stage, 0 after the last stage, zero-length stages skipped) speaks about this code -/
theorem staged_Rate_refines_exact (pre rest : List Stage) (hd : ∀ st ∈ rest, 0 < st.d) (fresh : Bool) (start now : Int)
    (fuel : Nat) (hf : rest.length + 1 ≤ fuel) (hfresh : fresh = true → pre = []) :
    let cur : Int := if fresh then -1 else pre.length
    let c : Calc := ⟨rest, if fresh = true ∧ start = 0 then none else some start⟩
    observe (runFn (noExtF (F := Rat)) fuel F1.Generated.MG.staged_Rate (calcState (pre ++ rest) cur start now))
        ["recv.current", "recv.start"] =
      some ([.int (c.rate now).1],
            [some (.int (((pre ++ rest).length : Int) - (c.rate now).2.rest.length)), some (.int ((c.rate now).2.start.getD 0))]) := by
  intro cur c
  have h := staged_Rate_refines (F := Rat) pre rest fresh start now fuel hf hfresh
  simp only [] at h
  rw [rateWith_interpG_rat _ hd] at h
  exact h

end F1.Props.Refine
