/- C11 — the regenerated `Calculator.For` refines the gaussian calculator model: window start, weight selection by window
index (the index loop, by induction), scaling, carry of the fractional remainder (see Props/RefineBase.lean for what a
refinement theorem says and assumes) -/
import F1Verif.Props.RefineBase
import F1Verif.Model.Gaussian

namespace F1.Props.Refine
open F1.MiniGo F1.Generated.MG F1.Gaussian

section gauss
variable {F : Type} [FloatLike F]

/-- one call of `For` as written, in any arithmetic, given the density value `pdf` the distribution returned for the slot
and the weight `w` of the tick's window (`none`: no weights configured) -/
def forG (multiplier averageWeight remainder pdf : F) (w : Option F) : F × Int :=
  let rate : F := FloatLike.mul pdf multiplier
  let rate : F := match w with
    | some x => FloatLike.div (FloatLike.mul rate x) averageWeight
    | none => rate
  let rwr : F := FloatLike.add rate remainder
  let fl : F := FloatLike.floor rwr
  (FloatLike.sub rwr fl, FloatLike.trunc fl)

/-- the index loop: `for startOfWeight != start { i++; startOfWeight = startOfWeight.Add(repeatWindow) }` -/
def idxLoop : Stmt :=
  (.while (.bin .ne (.var "startOfWeight") (.var "start"))
  (.seq (.assign "i" (.bin .add (.var "i") (.int 1)))
  (.assign "startOfWeight" (.builtin2 "Add" (.var "startOfWeight") (.var "recv.repeatWindow")))))

/-- the calculator as `For` finds it, with the locals of `For` up to the index loop -/
def forState (W t : Int) (m avg rem : F) (ws : List F) (start : Int) (slot pdf rate : F) (sow i : Int) : State F :=
  ⟨[("recv.repeatWindow", .int W), ("recv.multiplier", .flt m), ("recv.averageWeight", .flt avg), ("recv.remainder", .flt rem),
    ("arg0", .int t), ("start", .int start), ("slot", .flt slot), ("instantRate", .flt pdf), ("rate", .flt rate),
    ("startOfWeight", .int sow), ("i", .int i)],
   [("recv.dist.PDF", 1)], [], [], [("recv.weights", ws.map fun x => [("", Val.flt x)])]⟩

/-- the index loop is the model's `weightIndexLoop`: it stops with `i` = the number of windows between the start of the
weights cycle and the start of the tick's window -/
theorem idxLoop_index (ext : Ext F) (W t : Int) (m avg rem : F) (ws : List F) (start : Int) (slot pdf rate : F) :
    ∀ (fuel : Nat) (sow : Int) (i j : Nat), weightIndexLoop fuel sow start W i = some j →
      exec ext fuel idxLoop (forState W t m avg rem ws start slot pdf rate sow i) =
        .normal (forState W t m avg rem ws start slot pdf rate start j)
  | 0, _, _, _, h => by simp [weightIndexLoop] at h
  | fuel + 1, sow, i, j, h => by
    unfold weightIndexLoop at h
    by_cases hs : sow = start
    · subst hs
      simp at h; subst h
      simp [minigo, idxLoop, forState]
    · simp [hs] at h
      have ih := idxLoop_index ext W t m avg rem ws start slot pdf rate fuel (sow + W) (i + 1) j h
      simp [idxLoop, forState] at ih
      simp [minigo, idxLoop, forState, hs, ih]

theorem weightIndexLoop_mono (start W : Int) : ∀ (fuel : Nat) (sow : Int) (i j : Nat),
    weightIndexLoop fuel sow start W i = some j → ∀ k, weightIndexLoop (fuel + k) sow start W i = some j
  | 0, _, _, _, h, _ => by simp [weightIndexLoop] at h
  | fuel + 1, sow, i, j, h, k => by
    have e : fuel + 1 + k = (fuel + k) + 1 := by omega
    rw [e]
    unfold weightIndexLoop at h ⊢
    by_cases hs : sow = start
    · simpa [hs] using h
    · simp [hs] at h ⊢
      exact weightIndexLoop_mono start W fuel (sow + W) (i + 1) j h k

theorem truncate_fold (t d : Int) : (if d ≤ 0 then t else t - t % d) = truncate t d := rfl

/-- the density is an external: `pdfFn x` is what `Distribution.PDF` returns for the slot `x` -/
def gaussExt (pdfFn : F → F) : Ext F := fun f _ args =>
  if f = "recv.dist.PDF" then (match args with | [.flt x] => .flt (pdfFn x) | _ => .nil) else .nil

def calcState0 (W t : Int) (m avg rem : F) (ws : List F) : State F :=
  ⟨[("recv.repeatWindow", .int W), ("recv.multiplier", .flt m), ("recv.averageWeight", .flt avg), ("recv.remainder", .flt rem),
    ("arg0", .int t)], [], [], [], [("recv.weights", ws.map fun x => [("", Val.flt x)])]⟩

/-- one call of the regenerated `Calculator.For`, in any arithmetic: the density is asked for the offset of `now` in its
repeat window; with weights, the window's weight is the one at the model's `weightIndex`; the request is the floor of
rate + carried remainder and the new remainder is what the floor cut off (`forG`) -/
theorem gauss_For_refines (pdfFn : F → F) (W t : Int) (m avg rem : F) (ws : List F) (fuel : Nat) (hf : ws.length + 1 ≤ fuel)
    (hidx : ws ≠ [] → ∃ j, weightIndex t W ws.length = some j ∧ j < ws.length) :
    let slot : F := FloatLike.ofInt (t - truncate t W)
    let w : Option F := if ws = [] then none else (weightIndex t W ws.length).bind (ws[·]?)
    observeC (runFn (gaussExt pdfFn) fuel gauss_For (calcState0 W t m avg rem ws)) ["recv.remainder"] ["recv.dist.PDF"] =
      some ([.int (forG m avg rem (pdfFn slot) w).2], [some (.flt (forG m avg rem (pdfFn slot) w).1)], [1]) := by
  intro slot w
  cases ws with
  | nil =>
    simp [minigo, gauss_For, calcState0, gaussExt, forG, truncate_fold, slot, w]
  | cons x xs =>
    obtain ⟨j, hj, hjl⟩ := hidx (by simp)
    obtain ⟨k, rfl⟩ : ∃ k, fuel = (x :: xs).length + 1 + k := ⟨fuel - ((x :: xs).length + 1), by omega⟩
    have hj' := weightIndexLoop_mono (truncate t W) W _ _ _ _ hj k
    have hloop := idxLoop_index (gaussExt pdfFn) W t m avg rem (x :: xs) (truncate t W) slot (pdfFn slot)
      (FloatLike.mul (pdfFn slot) m) _ (truncate t (W * ((x :: xs).length : Int))) 0 j hj'
    simp [idxLoop, forState] at hloop
    obtain ⟨y, hy⟩ : ∃ y, (x :: xs)[j]? = some y := ⟨(x :: xs)[j], by simp [hjl]⟩
    have hrec : (List.map (fun x => [("", Val.flt (F := F) x)]) (x :: xs))[j]? = some [("", Val.flt y)] := by
      rw [List.getElem?_map, hy]; rfl
    simp only [List.map_cons] at hrec
    have hj2 : weightIndex t W (xs.length + 1) = some j := by simpa using hj
    simp [minigo, gauss_For, calcState0, gaussExt, forG, truncate_fold, slot, w, hloop, hrec, hj2, hy]

end gauss

/-- at `Float` the generic step is the `forF` the driver runs against the real calculator -/
theorem forG_float (c : CalcF) (t : Int) (pdf : Float) :
    forG (F := Float) c.multiplier c.averageWeight c.remainder pdf
        (if c.weights.size > 0 then (weightIndex t c.repeatNs c.weights.size).map (c.weights.getD · 0.0) else none) =
      ((forF c t pdf).1.remainder, (forF c t pdf).2) := by
  unfold forG forF
  simp only [FloatLike.mul, FloatLike.div, FloatLike.add, FloatLike.floor, FloatLike.sub, FloatLike.trunc]
  by_cases h : c.weights.size > 0
  · simp only [h, if_true]
    cases weightIndex t c.repeatNs c.weights.size <;> rfl
  · simp only [h, if_false]

section gauss
variable {F : Type} [FloatLike F]
end gauss
end F1.Props.Refine
