/- C08 / C14 — the regenerated closure of `runCmdExecute` (internal/run/run_cmd.go), executed by the MiniGo semantics:
how the command line becomes run options (each option from its own flag, or — for the config-file trigger — from the
same-named field of the trigger's options), which inputs are refused before anything runs (a flag that cannot be read, a
concurrency below 1, a trigger or a run that cannot be built), and how the finished run's verdict becomes the command's
error: the result's own error if it has one, a fresh error if the result is failed, nil — and only then — otherwise. -/
import F1Verif.Props.RefineBase

namespace F1.Props.Refine
open F1.MiniGo F1.Generated.MG

section cmd
variable {F : Type} [FloatLike F]

/-- what the command's collaborators answer -/
structure CmdOracle (F : Type) where
  newErr : Bool                  -- the trigger builder refuses the flags
  flagVal : Nat → Val F          -- value of flag k (1 max-duration, 2 concurrency, 3 max-iterations, 4 max-failures,
  flagErr : Nat → Bool           --   5 max-failures-rate, 6 ignore-dropped, 7 verbose, 8 verbose-fail); reading it fails
  newRunErr : Bool
  doErr : Bool
  resErr : Option Nat            -- the finished run's own error (setup / teardown / dropped …), if any
  failed : Bool                  -- `Result.Failed()`
  proj : String → Val F → Val F  -- any other field of a value

def cmdExt (O : CmdOracle F) : Ext F := fun f _ args =>
  if f = "New" then (match args with | .int 0 :: _ => .ref 50 | _ => if O.newErr then .nonNil else .nil)
  else if f = "GetDuration" ∨ f = "GetInt" ∨ f = "GetUint64" ∨ f = "GetBool" then
    (match args with
     | [.int 0, _, .ref k] => O.flagVal k
     | [_, _, .ref k] => if O.flagErr k then .nonNil else .nil
     | _ => .nil)
  else if f = "NewRun" then (match args with | .int 0 :: _ => .ref 60 | _ => if O.newRunErr then .nonNil else .nil)
  else if f = "Do" then (match args with | .int 0 :: _ => .ref 70 | _ => if O.doErr then .nonNil else .nil)
  else if f = "Error()" then optRef O.resErr
  else if f = "Failed()" then .bool O.failed
  else (match args with | [v] => O.proj f v | _ => .nil)

def cmdState (ignoreCommon fluentd : Bool) : State F :=
  ⟨[("arg0", .ref 10), ("arg1", .ref 11), ("arg2", .ref 12), ("arg3", .ref 13), ("arg4", .ref 14),
    ("arg1.IgnoreCommonFlags", .bool ignoreCommon), ("arg2.Fluentd.Present()", .bool fluentd),
    ("carg0.Flags()", .ref 20), ("carg0.Context()", .ref 21), ("waitForCompletionTimeout", .int 10000000000),
    ("triggerflags.FlagMaxDuration", .ref 1), ("triggerflags.FlagConcurrency", .ref 2), ("triggerflags.FlagMaxIterations", .ref 3),
    ("triggerflags.FlagMaxFailures", .ref 4), ("triggerflags.FlagMaxFailuresRate", .ref 5), ("triggerflags.FlagIgnoreDropped", .ref 6),
    ("triggerflags.FlagVerbose", .ref 7), ("triggerflags.FlagVerboseFail", .ref 8)],
   [], [], [], [("carg1", [[("", .ref 90)]])]⟩

def optFields : List String := ["$lit.options.RunOptions.Scenario", "$lit.options.RunOptions.MaxDuration",
  "$lit.options.RunOptions.Concurrency", "$lit.options.RunOptions.Verbose", "$lit.options.RunOptions.MaxIterations",
  "$lit.options.RunOptions.MaxFailures", "$lit.options.RunOptions.MaxFailuresRate", "$lit.options.RunOptions.IgnoreDropped"]

set_option maxHeartbeats 2000000 in
/-- **command line → run options → verdict → exit status** (flag-driven triggers): every flag read, concurrency ≥ 1, the run
built and executed. The options handed to `NewRun` are the scenario argument and the value of each option's *own* flag;
the command returns the result's own error if there is one, else a fresh error iff the result is failed, else nil — and
usage printing is re-enabled only in the last case. -/
theorem cmd_execute_flags (O : CmdOracle F) (fluentd : Bool) (conc : Int) (hc : O.flagVal 2 = .int conc) (h1 : 1 ≤ conc)
    (hn : O.newErr = false) (hf : ∀ k, O.flagErr k = false) (hr : O.newRunErr = false) (hd : O.doErr = false)
    (hvf : O.flagVal 8 = .bool false) :
    observeC (runFn (cmdExt O) 0 cmd_execute_body (cmdState false fluentd)) ("carg0.SilenceUsage" :: optFields) ["NewRun", "Do"] =
      some ([match O.resErr with | some e => .ref e | none => if O.failed then .nonNil else .nil],
        [some (.bool (decide (O.resErr = none ∧ O.failed = false) == false)),
         some (.ref 90), some (O.flagVal 1), some (.int conc), some (O.flagVal 7), some (O.flagVal 3), some (O.flagVal 4),
         some (O.flagVal 5), some (O.flagVal 6)], [1, 1]) := by
  have h1' : ¬ (conc < 1) := by omega
  simp [minigo, cmd_execute_body, cmdState, cmdExt, optFields, hc, hn, hf, hr, hd, hvf, h1']
  rcases O.resErr with _ | e <;> cases O.failed <;> simp [optRef]

set_option maxHeartbeats 2000000 in
/-- a concurrency below 1 is refused before a run is even built -/
theorem cmd_execute_concurrency (O : CmdOracle F) (fluentd : Bool) (conc : Int) (hc : O.flagVal 2 = .int conc) (h1 : conc < 1)
    (hn : O.newErr = false) (hf : ∀ k, O.flagErr k = false) :
    observeC (runFn (cmdExt O) 0 cmd_execute_body (cmdState false fluentd)) ["carg0.SilenceUsage"] ["NewRun", "Do"] =
      some ([.nonNil], [some (.bool true)], [0, 0]) := by
  simp [minigo, cmd_execute_body, cmdState, cmdExt, hc, hn, hf, h1]

set_option maxHeartbeats 2000000 in
/-- a trigger that cannot be built from the flags, or a flag that cannot be read, is an error and nothing runs -/
theorem cmd_execute_refused (O : CmdOracle F) (fluentd ignoreCommon : Bool)
    (h : O.newErr = true ∨ (ignoreCommon = false ∧ (O.flagErr 1 = true ∨ O.flagErr 2 = true))) :
    observeC (runFn (cmdExt O) 0 cmd_execute_body (cmdState ignoreCommon fluentd)) [] ["NewRun", "Do"] =
      some ([.nonNil], [], [0, 0]) := by
  by_cases hn : O.newErr = true
  · simp [minigo, cmd_execute_body, cmdState, cmdExt, hn]
  · rcases h with h | ⟨hi, h⟩
    · exact absurd h hn
    · subst hi
      by_cases h1 : O.flagErr 1 = true
      · simp [minigo, cmd_execute_body, cmdState, cmdExt, hn, h1]
      · have h2 : O.flagErr 2 = true := by rcases h with h | h; exact absurd h h1; exact h
        simp [minigo, cmd_execute_body, cmdState, cmdExt, hn, h1, h2]

set_option maxHeartbeats 2000000 in
/-- **the config-file trigger** (`IgnoreCommonFlags`): every run option is the same-named field of the trigger's own options
— no flag is consulted for them, and the concurrency guard is the parser's (C14), not this function's -/
theorem cmd_execute_file (O : CmdOracle F) (fluentd : Bool)
    (hn : O.newErr = false) (hf : ∀ k, O.flagErr k = false) (hr : O.newRunErr = false) (hd : O.doErr = false)
    (hvf : O.flagVal 8 = .bool false) :
    observeC (runFn (cmdExt O) 0 cmd_execute_body (cmdState true fluentd)) optFields ["NewRun", "Do", "GetInt", "GetUint64", "GetDuration"] =
      some ([match O.resErr with | some e => .ref e | none => if O.failed then .nonNil else .nil],
        [some (O.proj "Scenario" (O.proj "Options" (.ref 50))), some (O.proj "MaxDuration" (O.proj "Options" (.ref 50))),
         some (O.proj "Concurrency" (O.proj "Options" (.ref 50))), some (O.flagVal 7),
         some (O.proj "MaxIterations" (O.proj "Options" (.ref 50))), some (O.proj "MaxFailures" (O.proj "Options" (.ref 50))),
         some (O.proj "MaxFailuresRate" (O.proj "Options" (.ref 50))), some (O.proj "IgnoreDropped" (O.proj "Options" (.ref 50)))],
        [1, 1, 0, 0, 0]) := by
  simp [minigo, cmd_execute_body, cmdState, cmdExt, optFields, hn, hf, hr, hd, hvf]
  rcases O.resErr with _ | e <;> cases O.failed <;> simp [optRef]

set_option maxHeartbeats 2000000 in
/-- a run that cannot be built, or whose execution reports an internal error, is an error of the command -/
theorem cmd_execute_run_errors (O : CmdOracle F) (fluentd : Bool) (conc : Int) (hc : O.flagVal 2 = .int conc) (h1 : 1 ≤ conc)
    (hn : O.newErr = false) (hf : ∀ k, O.flagErr k = false) (hvf : O.flagVal 8 = .bool false)
    (h : O.newRunErr = true ∨ O.doErr = true) :
    observeC (runFn (cmdExt O) 0 cmd_execute_body (cmdState false fluentd)) [] ["NewRun"] = some ([.nonNil], [], [1]) := by
  have h1' : ¬ (conc < 1) := by omega
  by_cases hr : O.newRunErr = true
  · simp [minigo, cmd_execute_body, cmdState, cmdExt, hc, hn, hf, hvf, h1', hr]
  · have hd : O.doErr = true := by rcases h with h | h; exact absurd h hr; exact h
    simp [minigo, cmd_execute_body, cmdState, cmdExt, hc, hn, hf, hvf, h1', hr, hd]

end cmd
end F1.Props.Refine
