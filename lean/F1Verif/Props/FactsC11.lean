/-
C11 — regenerated facts: the anchored functions still read as the model of C11 assumes.
`Generated.*` is rewritten from /repo's working tree on every run; `Expected.*` is what the model was written against.
-/
import F1Verif.Generated.Facts
import F1Verif.Expected
namespace F1.Props.FactsC11

-- (gauss_For: re-proved semantically on the regenerated MiniGo programs, see Props/Refine*.lean)

theorem fact_gauss_NewCalculator : F1.Generated.skel_gauss_NewCalculator = F1.Expected.skel_gauss_NewCalculator := by rfl
theorem fact_gauss_Calculate : F1.Generated.skel_gauss_Calculate = F1.Expected.skel_gauss_Calculate := by rfl
theorem fact_gauss_CalculateVolume : F1.Generated.skel_gauss_CalculateVolume = F1.Expected.skel_gauss_CalculateVolume := by rfl
theorem fact_gauss_parseRateToTPS : F1.Generated.skel_gauss_parseRateToTPS = F1.Expected.skel_gauss_parseRateToTPS := by rfl
theorem fact_gdist_New : F1.Generated.skel_gdist_New = F1.Expected.skel_gdist_New := by rfl
theorem fact_gdist_Exponent : F1.Generated.skel_gdist_Exponent = F1.Expected.skel_gdist_Exponent := by rfl
theorem fact_gdist_PDF : F1.Generated.skel_gdist_PDF = F1.Expected.skel_gdist_PDF := by rfl
theorem fact_gdist_CDF : F1.Generated.skel_gdist_CDF = F1.Expected.skel_gdist_CDF := by rfl

end F1.Props.FactsC11
