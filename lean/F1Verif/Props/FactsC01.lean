/-
C01 — regenerated facts: the anchored functions still read as the model of C01 assumes.
`Generated.*` is rewritten from /repo's working tree on every run; `Expected.*` is what the model was written against.
-/
import F1Verif.Generated.Facts
import F1Verif.Expected
namespace F1.Props.FactsC01

-- (average_Add, average_drain, average_Update, average_Reset, active_Run, active_RecordDropped: re-proved semantically on the regenerated MiniGo programs, see Props/Refine*.lean)

theorem fact_average_CollectLifetime : F1.Generated.skel_average_CollectLifetime = F1.Expected.skel_average_CollectLifetime := by rfl
theorem fact_average_Record : F1.Generated.skel_average_Record = F1.Expected.skel_average_Record := by rfl
theorem fact_stats_Record : F1.Generated.skel_stats_Record = F1.Expected.skel_stats_Record := by rfl
theorem fact_stats_Snapshot : F1.Generated.skel_stats_Snapshot = F1.Expected.skel_stats_Snapshot := by rfl
theorem fact_stats_Total : F1.Generated.skel_stats_Total = F1.Expected.skel_stats_Total := by rfl
theorem fact_result_SnapshotProgress : F1.Generated.skel_result_SnapshotProgress = F1.Expected.skel_result_SnapshotProgress := by rfl
theorem fact_result_GetTotals : F1.Generated.skel_result_GetTotals = F1.Expected.skel_result_GetTotals := by rfl
theorem fact_metrics_RecordIterationResult : F1.Generated.skel_metrics_RecordIterationResult = F1.Expected.skel_metrics_RecordIterationResult := by rfl
theorem fact_result_Snapshot : F1.Generated.skel_result_Snapshot = F1.Expected.skel_result_Snapshot := by rfl
theorem fact_result_New : F1.Generated.skel_result_New = F1.Expected.skel_result_New := by rfl
theorem fact_snapshot_Iterations : F1.Generated.skel_snapshot_Iterations = F1.Expected.skel_snapshot_Iterations := by rfl
theorem fact_snapshot_IterationsStarted : F1.Generated.skel_snapshot_IterationsStarted = F1.Expected.skel_snapshot_IterationsStarted := by rfl
theorem fact_metrics_Reset : F1.Generated.skel_metrics_Reset = F1.Expected.skel_metrics_Reset := by rfl

end F1.Props.FactsC01
