/-
C05 — regenerated facts: the anchored functions still read as the model of C05 assumes.
`Generated.*` is rewritten from /repo's working tree on every run; `Expected.*` is what the model was written against.
-/
import F1Verif.Generated.Facts
import F1Verif.Expected
namespace F1.Props.FactsC05

theorem fact_run_Do : F1.Generated.skel_run_Do = F1.Expected.skel_run_Do := by rfl
theorem fact_run_run : F1.Generated.skel_run_run = F1.Expected.skel_run_run := by rfl
theorem fact_runner_Start : F1.Generated.skel_runner_Start = F1.Expected.skel_runner_Start := by rfl
theorem fact_runner_Stop : F1.Generated.skel_runner_Stop = F1.Expected.skel_runner_Stop := by rfl
theorem fact_manager_WaitForCompletion : F1.Generated.skel_manager_WaitForCompletion = F1.Expected.skel_manager_WaitForCompletion := by rfl
theorem fact_file_newStagesWorker : F1.Generated.skel_file_newStagesWorker = F1.Expected.skel_file_newStagesWorker := by rfl
theorem fact_result_Teardown : F1.Generated.skel_result_Teardown = F1.Expected.skel_result_Teardown := by rfl
theorem fact_result_Summary : F1.Generated.skel_result_Summary = F1.Expected.skel_result_Summary := by rfl
theorem fact_result_Failed : F1.Generated.skel_result_Failed = F1.Expected.skel_result_Failed := by rfl
theorem fact_result_Error : F1.Generated.skel_result_Error = F1.Expected.skel_result_Error := by rfl
theorem fact_cpool_Start : F1.Generated.skel_cpool_Start = F1.Expected.skel_cpool_Start := by rfl
theorem fact_pool_stop : F1.Generated.skel_pool_stop = F1.Expected.skel_pool_stop := by rfl
theorem fact_result_Progress : F1.Generated.skel_result_Progress = F1.Expected.skel_result_Progress := by rfl
theorem fact_result_HasDropped : F1.Generated.skel_result_HasDropped = F1.Expected.skel_result_HasDropped := by rfl
theorem fact_result_Setup : F1.Generated.skel_result_Setup = F1.Expected.skel_result_Setup := by rfl
theorem fact_result_MaxDurationElapsed : F1.Generated.skel_result_MaxDurationElapsed = F1.Expected.skel_result_MaxDurationElapsed := by rfl
theorem fact_result_Interrupted : F1.Generated.skel_result_Interrupted = F1.Expected.skel_result_Interrupted := by rfl
theorem fact_result_RecordStarted : F1.Generated.skel_result_RecordStarted = F1.Expected.skel_result_RecordStarted := by rfl
theorem fact_result_RecordTestFinished : F1.Generated.skel_result_RecordTestFinished = F1.Expected.skel_result_RecordTestFinished := by rfl
theorem fact_result_MaxIterationsReached : F1.Generated.skel_result_MaxIterationsReached = F1.Expected.skel_result_MaxIterationsReached := by rfl
theorem fact_result_duration : F1.Generated.skel_result_duration = F1.Expected.skel_result_duration := by rfl
theorem fact_result_AddError : F1.Generated.skel_result_AddError = F1.Expected.skel_result_AddError := by rfl
theorem fact_result_SnapshotProgress : F1.Generated.skel_result_SnapshotProgress = F1.Expected.skel_result_SnapshotProgress := by rfl
theorem fact_result_GetTotals : F1.Generated.skel_result_GetTotals = F1.Expected.skel_result_GetTotals := by rfl
theorem fact_run_newProgressRunner : F1.Generated.skel_run_newProgressRunner = F1.Expected.skel_run_newProgressRunner := by rfl
theorem fact_run_teardown : F1.Generated.skel_run_teardown = F1.Expected.skel_run_teardown := by rfl
theorem fact_run_printSummary : F1.Generated.skel_run_printSummary = F1.Expected.skel_run_printSummary := by rfl
theorem fact_users_NewWorker : F1.Generated.skel_users_NewWorker = F1.Expected.skel_users_NewWorker := by rfl
theorem fact_api_NewIterationWorker : F1.Generated.skel_api_NewIterationWorker = F1.Expected.skel_api_NewIterationWorker := by rfl

end F1.Props.FactsC05
