/-
C12 — the closures of `withRegularDistribution` / `withRandomDistribution`, regenerated from /repo, refine the models.

Three steps for the regular distribution:
1. `dist_regular_body_refines` — for *every* arithmetic `F` (so for binary64 and for exact rationals alike) one call of
   the regenerated closure is the reload test followed by `regStepG`, the sub-tick written with the float operations of
   the source one for one;
2. `regStepG_rat_grid` — in exact arithmetic, on an accumulator that is a whole number of grid units `a/10⁷`, `regStepG` is
   the integer model `RegZ.advance` the theorems of `Props/C12` are about (this is where "the accumulator is always a
   multiple of 1/S, so the model works in grid units" stops being a comment);
3. `regStepG_float` — at `Float` it is, operation for operation, the `regStepF` the driver runs for the bit-exact tie.
-/
import Mathlib.Data.Rat.Floor
import Mathlib.Algebra.Order.Floor.Ring
import Mathlib.Tactic.Linarith
import Mathlib.Tactic.FieldSimp
import Mathlib.Tactic.Ring
import F1Verif.Props.RefineC12

namespace F1.Props.Refine
open F1.MiniGo F1.Generated.MG F1.Dist

/-! step 2 -/

theorem rat_floor_eq (q : ℚ) : q.floor = ⌊q⌋ := rfl

theorem ceil_grid (a r : Int) (N : Nat) (hN : 1 ≤ N) :
    -(-(((a:ℚ) / (10000000:ℚ) + (r:ℚ) / ((N:ℤ):ℚ)) * 10000000)).floor = a + inc N r := by
  have hNq : ((N:ℤ):ℚ) ≠ 0 := by
    have : (0:ℚ) < ((N:ℤ):ℚ) := by exact_mod_cast hN
    exact ne_of_gt this
  have e : -(((a:ℚ) / (10000000:ℚ) + (r:ℚ) / ((N:ℤ):ℚ)) * 10000000) =
      ((-a : ℤ) : ℚ) + ((-(10000000 * r) : ℤ) : ℚ) / ((N : ℕ) : ℚ) := by
    push_cast
    field_simp
    ring
  rw [e, rat_floor_eq, Int.floor_intCast_add, Rat.floor_intCast_div_natCast]
  simp [inc, ceilDiv, scale]
  omega

/-- step 2: in exact arithmetic, on a whole number `a` of grid units, `regStepG` is the integer step of the model:
the new accumulator is `(a + ⌈S·r/N⌉) mod S` grid units (or the sum itself while below one), the output the quotient -/
theorem regStepG_rat_grid (N : Nat) (hN : 1 ≤ N) (r a : Int) (s : RegZ) (hr : s.rate = r) (ha : s.acc = a) :
    regStepG (F := Rat) N r ((a : Rat) / (scale : Rat)) =
      ((((s.advance N).1.acc : Int) : Rat) / (scale : Rat), (s.advance N).2) := by
  subst hr ha
  have hk := ceil_grid s.acc s.rate N hN
  have hS : ((scale : Nat) : Rat) = 10000000 := by norm_num [scale]
  unfold regStepG
  simp only [FloatLike.add, FloatLike.div, FloatLike.ofInt, FloatLike.mul, FloatLike.ceil, FloatLike.lt, FloatLike.sub,
    FloatLike.trunc, hS]
  have e10 : ((10000000 : ℤ) : ℚ) = 10000000 := by norm_num
  rw [e10, hk]
  have hS0 : (0:ℚ) < 10000000 := by norm_num
  have hlt : ∀ K : Int, ((K:ℚ) / 10000000 < ((1:ℤ):ℚ)) ↔ K < 10000000 := by
    intro K; push_cast; rw [div_lt_one hS0]; exact_mod_cast Iff.rfl
  have hd : ∀ K : Int, decide ((K:ℚ) / 10000000 < ((1:ℤ):ℚ)) = decide (K < 10000000) := by
    intro K; simp only [decide_eq_decide]; exact hlt K
  rw [hd]
  by_cases hK1 : s.acc + inc N s.rate < 10000000
  · have hadv : RegZ.advance N s = ({ s with acc := s.acc + inc N s.rate, remaining := s.remaining - 1 }, 0) := by
      simp [RegZ.advance, scale, hK1]
    rw [hadv]
    simp only [hK1, decide_true, if_true]
  · have hadv : RegZ.advance N s = ({ s with acc := (s.acc + inc N s.rate) % 10000000, remaining := s.remaining - 1 },
        (s.acc + inc N s.rate) / 10000000) := by
      simp [RegZ.advance, scale, hK1]
    rw [hadv]
    generalize s.acc + inc N s.rate = K at *
    have hnn : (K:ℚ) / 10000000 ≥ 0 := by
      apply div_nonneg
      · exact_mod_cast (by omega : (0:Int) ≤ K)
      · norm_num
    have hfl : ((K:ℚ) / 10000000).floor = K / 10000000 := by
      rw [rat_floor_eq]
      have := Rat.floor_intCast_div_natCast K 10000000
      push_cast at this
      exact this
    simp only [hK1, decide_false, Bool.false_eq_true, if_false, if_pos hnn, hfl]
    refine Prod.ext ?_ rfl
    show (K:ℚ) / 10000000 - (((K / 10000000 : ℤ)) : ℚ) = (((K % 10000000 : ℤ)) : ℚ) / 10000000
    have hmod : K % 10000000 = K - 10000000 * (K / 10000000) := Int.emod_def K 10000000
    rw [hmod]; push_cast; field_simp

/-- over a whole cycle and any number of cycles the correspondence is kept: the accumulator the code holds is always the
model's number of grid units divided by `S` (invariant of `regStepZ`, by `regStepG_rat_grid` at every step) -/
theorem regStepG_rat_tracks (N : Nat) (hN : 1 ≤ N) (rates : Nat → Int) (s : RegZ) :
    regStepG (F := Rat) N (s.reload N rates).rate (((s.reload N rates).acc : Rat) / (scale : Rat)) =
      ((((regStepZ N rates s).1.acc : Int) : Rat) / (scale : Rat), (regStepZ N rates s).2) :=
  regStepG_rat_grid N hN _ _ (s.reload N rates) rfl rfl

/-! step 3 -/

/-- at `Float` the generic step is, operation for operation, the step the driver runs against the real closure -/
theorem regStepG_float (N : Nat) (rate : Int) (acc : Float) :
    regStepG (F := Float) N rate acc =
      (let a1 := acc + Float.ofInt rate / Float.ofInt (N : Int)
       let a2 := (a1 * Float.ofInt 10000000).ceil / Float.ofInt 10000000
       if a2 < Float.ofInt 1 then (a2, 0) else (a2 - Float.ofInt a2.toInt64.toInt, a2.toInt64.toInt)) := by
  unfold regStepG
  simp only [FloatLike.add, FloatLike.div, FloatLike.ofInt, FloatLike.mul, FloatLike.ceil, FloatLike.lt, FloatLike.sub,
    FloatLike.trunc]
  split <;> simp_all

end F1.Props.Refine
