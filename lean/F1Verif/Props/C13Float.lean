/-
C13, level 2 — the jitter step in *rounded* arithmetic.

`Props/C13.lean` proves the telescoping total and the bounded carry for every step that is `Admissible a δ` (δ a rounding
slack), `Props/RefineC13*.lean` show that the regenerated closure of `WithJitter` executes `jitterStepG` in any arithmetic
and that in exact arithmetic that step is admissible with δ = 0. This file closes the gap for binary64: in **any**
arithmetic that satisfies `FPSpec`, for rates and balances up to 10⁹, jitter in `[0, 100]` and any cosine in `[−1, 1]`, the
step is admissible with the slack δ = 1/1000 the property theorems were proved with, and the balance it carries is exactly
the integer `requested − handed out` (no rounding ever touches it).
-/
import F1Verif.Props.FloatSpec
import F1Verif.Props.RefineC13
import F1Verif.Props.RefineC13Q
import F1Verif.Props.C13

set_option linter.unusedSectionVars false

namespace F1.Props.C13Float
open F1.MiniGo F1.FloatSpec F1.Props.Refine F1.Props.C13

variable {F : Type} [FloatLike F] (S : FPSpec F)

theorem rnd_abs_le (x B : ℚ) (h : |x| ≤ B) : |S.rnd x - x| ≤ u * B :=
  le_trans (S.rnd_err x) (mul_le_mul_of_nonneg_left h (le_of_lt u_pos))

/-- the variation factor `1 + cos·jitter/100` as computed: within `6u` of the exact one, and at most 3 in size -/
theorem vf_close (c multiple : F) (hJ0 : 0 ≤ S.toRat multiple) (hJ1 : S.toRat multiple ≤ 100) (hc : |S.toRat c| ≤ 1) :
    |S.toRat (FloatLike.add (FloatLike.ofInt 1 : F) (FloatLike.div (FloatLike.mul c multiple) (FloatLike.ofInt 100))) -
      (1 + S.toRat c * (S.toRat multiple / 100))| ≤ 6 * u ∧
    |S.toRat (FloatLike.add (FloatLike.ofInt 1 : F) (FloatLike.div (FloatLike.mul c multiple) (FloatLike.ofInt 100)))| ≤ 3 := by
  set C := S.toRat c with hC
  set J := S.toRat multiple with hJ
  have e1 : S.toRat (FloatLike.ofInt 1 : F) = 1 := by
    rw [S.ofInt_spec]; have := S.rnd_int 1 (by norm_num); simpa using this
  have e100 : S.toRat (FloatLike.ofInt 100 : F) = 100 := by
    rw [S.ofInt_spec]; have := S.rnd_int 100 (by norm_num); simpa using this
  have hu0 : 0 ≤ u := le_of_lt u_pos
  have hu1 : u ≤ 1 / 1000 := by unfold u; norm_num
  -- t1 = fl(C·J)
  have hCJ : |C * J| ≤ 100 := by
    rw [abs_mul, abs_of_nonneg hJ0]
    calc |C| * J ≤ 1 * 100 := mul_le_mul hc hJ1 hJ0 (by norm_num)
      _ = 100 := by norm_num
  set t1 := S.rnd (C * J) with ht1
  have h1 : |t1 - C * J| ≤ u * 100 := rnd_abs_le S _ _ hCJ
  have h1' : |t1| ≤ 101 := by
    have := abs_sub_abs_le_abs_sub t1 (C * J)
    have : |t1| ≤ |C * J| + u * 100 := by linarith
    linarith
  -- t2 = fl(t1/100)
  have ht1d : |t1 / 100| ≤ 101 / 100 := by
    rw [abs_div]; have : |(100:ℚ)| = 100 := abs_of_pos (by norm_num)
    rw [this]; exact div_le_div_of_nonneg_right h1' (by norm_num)
  set t2 := S.rnd (t1 / 100) with ht2
  have h2 : |t2 - t1 / 100| ≤ u * (101 / 100) := rnd_abs_le S _ _ ht1d
  have h2' : |t2 - C * (J / 100)| ≤ 3 * u := by
    have e : t2 - C * (J / 100) = (t2 - t1 / 100) + (t1 - C * J) / 100 := by ring
    rw [e]
    have : |(t1 - C * J) / 100| ≤ u := by
      rw [abs_div]; have : |(100:ℚ)| = 100 := abs_of_pos (by norm_num)
      rw [this, div_le_iff₀ (by norm_num)]; linarith
    have := abs_add_le (t2 - t1 / 100) ((t1 - C * J) / 100)
    linarith
  have hCa : |C * (J / 100)| ≤ 1 := by
    rw [abs_mul, abs_of_nonneg (div_nonneg hJ0 (by norm_num))]
    calc |C| * (J / 100) ≤ 1 * 1 := mul_le_mul hc (by rw [div_le_one (by norm_num)]; exact hJ1) (div_nonneg hJ0 (by norm_num)) (by norm_num)
      _ = 1 := by norm_num
  have h2'' : |t2| ≤ 1 + 3 * u := by
    have := abs_sub_abs_le_abs_sub t2 (C * (J / 100))
    linarith
  -- vf = fl(1 + t2)
  have h12 : |1 + t2| ≤ 2 + 3 * u := by
    have := abs_add_le (1:ℚ) t2
    have : |(1:ℚ)| = 1 := abs_one
    linarith
  have h3 : |S.rnd (1 + t2) - (1 + t2)| ≤ u * (2 + 3 * u) := rnd_abs_le S _ _ h12
  have evf : S.toRat (FloatLike.add (FloatLike.ofInt 1 : F) (FloatLike.div (FloatLike.mul c multiple) (FloatLike.ofInt 100))) =
      S.rnd (1 + t2) := by
    rw [S.add_spec, e1, S.div_spec _ _ (by rw [e100]; norm_num), S.mul_spec, e100]
  rw [evf]
  have hsmall : u * (2 + 3 * u) ≤ 3 * u := by nlinarith
  constructor
  · have e : S.rnd (1 + t2) - (1 + C * (J / 100)) = (S.rnd (1 + t2) - (1 + t2)) + (t2 - C * (J / 100)) := by ring
    rw [e]
    have := abs_add_le (S.rnd (1 + t2) - (1 + t2)) (t2 - C * (J / 100))
    linarith
  · have := abs_sub_abs_le_abs_sub (S.rnd (1 + t2)) (1 + t2)
    have : |S.rnd (1 + t2)| ≤ 2 + 3 * u + 3 * u := by linarith
    linarith

/-- **C13 in rounded arithmetic.** One step of `jitterStepG` (what the regenerated closure of `WithJitter` executes) in any
`FPSpec` arithmetic, with an integer balance `b`, `|rate|, |b| ≤ 10⁹`, jitter in `[0, 100]` percent and any cosine value in
`[−1, 1]`: the carried balance is exactly the integer `rate + b − out`, and the step is admissible with slack 1/1000 -/
theorem jitterStepG_fp (c multiple : F) (hJ0 : 0 ≤ S.toRat multiple) (hJ1 : S.toRat multiple ≤ 100) (hc : |S.toRat c| ≤ 1)
    (r b : ℤ) (hr : |r| ≤ 1000000000) (hb : |b| ≤ 1000000000) (balance : F) (hbal : S.toRat balance = b) :
    let s := jitterStepG multiple r balance c
    S.toRat s.1 = (((r + b - s.2 : ℤ)) : ℚ) ∧ Admissible (S.toRat multiple / 100) (1 / 1000) (r + b) s.2 := by
  intro s
  obtain ⟨hvf, hvfB⟩ := vf_close S c multiple hJ0 hJ1 hc
  set vf := S.toRat (FloatLike.add (FloatLike.ofInt 1 : F) (FloatLike.div (FloatLike.mul c multiple) (FloatLike.ofInt 100))) with hvfdef
  set C := S.toRat c with hC
  set a := S.toRat multiple / 100 with ha
  have ha0 : 0 ≤ a := div_nonneg hJ0 (by norm_num)
  have ha1 : a ≤ 1 := by rw [ha, div_le_one (by norm_num)]; exact hJ1
  have hu0 : 0 ≤ u := le_of_lt u_pos
  have hrb : |(r + b : ℤ)| ≤ 2000000000 := by
    have := abs_add_le r b
    omega
  have hrbq : |((r + b : ℤ) : ℚ)| ≤ 2000000000 := by exact_mod_cast hrb
  -- requested = rate + balance, exactly
  have e_r : S.toRat (FloatLike.ofInt r : F) = r := by
    rw [S.ofInt_spec]; exact S.rnd_int r (by omega)
  have e_req : S.toRat (FloatLike.add (FloatLike.ofInt r : F) balance) = ((r + b : ℤ) : ℚ) := by
    rw [S.add_spec, e_r, hbal]
    have := S.rnd_int (r + b) (by omega)
    push_cast at this ⊢; exact this
  set req : ℚ := ((r + b : ℤ) : ℚ) with hreq
  -- proposed = fl(req · vf)
  set p := S.rnd (req * vf) with hp
  have e_p : S.toRat (FloatLike.mul (FloatLike.add (FloatLike.ofInt r : F) balance)
      (FloatLike.add (FloatLike.ofInt 1 : F) (FloatLike.div (FloatLike.mul c multiple) (FloatLike.ofInt 100)))) = p := by
    rw [S.mul_spec, e_req]
  have hreqvf : |req * vf| ≤ 6000000000 := by
    rw [abs_mul]
    calc |req| * |vf| ≤ 2000000000 * 3 := mul_le_mul hrbq hvfB (abs_nonneg _) (by norm_num)
      _ = 6000000000 := by norm_num
  have hp1 : |p - req * vf| ≤ u * 6000000000 := rnd_abs_le S _ _ hreqvf
  have hp2 : |req * vf - req * (1 + C * a)| ≤ 2000000000 * (6 * u) := by
    have e : req * vf - req * (1 + C * a) = req * (vf - (1 + C * a)) := by ring
    rw [e, abs_mul]
    exact mul_le_mul hrbq hvf (abs_nonneg _) (by norm_num)
  have hp3 : |p - req * (1 + C * a)| ≤ 1 / 100000 := by
    have e : p - req * (1 + C * a) = (p - req * vf) + (req * vf - req * (1 + C * a)) := by ring
    rw [e]
    have := abs_add_le (p - req * vf) (req * vf - req * (1 + C * a))
    have : u * 6000000000 + 2000000000 * (6 * u) ≤ 1 / 100000 := by unfold u; norm_num
    linarith
  have hpB : |p| ≤ 4503599627370496 := by
    have := abs_sub_abs_le_abs_sub p (req * vf)
    have : u * 6000000000 ≤ 1 := by unfold u; norm_num
    linarith
  -- rounded = max 0 (round proposed), an integer k
  have e_0 : S.toRat (FloatLike.ofInt 0 : F) = 0 := by
    rw [S.ofInt_spec]; have := S.rnd_int 0 (by norm_num); simpa using this
  set k : ℤ := max 0 (ratRound p) with hk
  have e_k : S.toRat (FloatLike.max (FloatLike.ofInt 0 : F) (FloatLike.round (FloatLike.mul (FloatLike.add (FloatLike.ofInt r : F) balance)
      (FloatLike.add (FloatLike.ofInt 1 : F) (FloatLike.div (FloatLike.mul c multiple) (FloatLike.ofInt 100)))))) = (k : ℚ) := by
    rw [S.max_spec, e_0, S.round_spec _ (by rw [e_p]; exact hpB), e_p, hk]
    push_cast; rfl
  have hrnd := ratRound_close p
  have hk0 : 0 ≤ k := le_max_left _ _
  have hkB : (k : ℚ) ≤ 4503599627370496 := by
    rcases le_total (ratRound p) 0 with h | h
    · rw [hk, max_eq_left h]; norm_num
    · rw [hk, max_eq_right h]
      have := (abs_le.mp hrnd).2
      have := (abs_le.mp hpB).2
      have h6 : |p| ≤ 6000000001 := by
        have := abs_sub_abs_le_abs_sub p (req * vf)
        have : u * 6000000000 ≤ 1 := by unfold u; norm_num
        linarith
      have := (abs_le.mp h6).2
      linarith
  have e_out : s.2 = k := by
    show FloatLike.trunc _ = k
    rw [S.trunc_spec _ (by rw [e_k]; exact_mod_cast hk0) (by rw [e_k]; exact hkB), e_k]
    exact Int.floor_intCast k
  have e_bal : S.toRat s.1 = ((r + b - k : ℤ) : ℚ) := by
    show S.toRat (FloatLike.sub _ _) = _
    rw [S.sub_spec, e_req, e_k]
    have hkle : k ≤ 6000000002 := by
      rcases le_total (ratRound p) 0 with h | h
      · rw [hk, max_eq_left h]; norm_num
      · rw [hk, max_eq_right h]
        have h6 : |p| ≤ 6000000001 := by
          have := abs_sub_abs_le_abs_sub p (req * vf)
          have : u * 6000000000 ≤ 1 := by unfold u; norm_num
          linarith
        have h7 := (abs_le.mp h6).2
        have h8 := (abs_le.mp hrnd).2
        have : ((ratRound p : ℤ) : ℚ) ≤ 6000000002 := by linarith
        exact_mod_cast this
    have := S.rnd_int (r + b - k) (by
      have := abs_le.mp hrb
      rw [abs_le]; constructor <;> omega)
    push_cast at this ⊢; rw [hreq]; push_cast; exact this
  refine ⟨by rw [e_bal, e_out], ?_⟩
  rw [e_out]
  refine ⟨hk0, ?_, ?_⟩
  · -- nothing requested: nothing handed out
    intro hreq0
    have hreq0q : req ≤ 0 := by rw [hreq]; exact_mod_cast hreq0
    have hfac : 0 ≤ 1 + C * a := by
      have := abs_le.mp hc
      nlinarith [this.1, this.2]
    have hexact : req * (1 + C * a) ≤ 0 := mul_nonpos_of_nonpos_of_nonneg hreq0q hfac
    have hpsmall : p ≤ 1 / 100000 := by
      have := (abs_le.mp hp3).2
      linarith
    -- round of something below 1/2 is at most 0
    have hr0 : ratRound p ≤ 0 := by
      by_contra hcon
      rw [not_le] at hcon
      have h1 : (1:ℚ) ≤ ((ratRound p : ℤ) : ℚ) := by exact_mod_cast hcon
      have := (abs_le.mp hrnd).2
      linarith
    rw [hk, max_eq_left hr0]
  · intro hreq1
    have hreq1q : 0 < req := by rw [hreq]; exact_mod_cast hreq1
    have hCa : |req * (1 + C * a) - req| ≤ a * req := by
      have e : req * (1 + C * a) - req = req * (C * a) := by ring
      rw [e, abs_mul, abs_of_pos hreq1q, abs_mul, abs_of_nonneg ha0]
      have : |C| * a ≤ 1 * a := mul_le_mul_of_nonneg_right hc ha0
      nlinarith
    -- p ≥ −1/10⁶, so its rounding is ≥ 0 and the clamp does nothing
    have hpge : -(1 / 100000 : ℚ) ≤ p := by
      have h1 := (abs_le.mp hp3).1
      have hfac : 0 ≤ 1 + C * a := by
        have := abs_le.mp hc
        nlinarith [this.1, this.2]
      have : 0 ≤ req * (1 + C * a) := mul_nonneg (le_of_lt hreq1q) hfac
      linarith
    have hr0 : 0 ≤ ratRound p := by
      by_contra hcon
      rw [not_le] at hcon
      have h1 : ((ratRound p : ℤ) : ℚ) ≤ -1 := by exact_mod_cast (by omega : ratRound p ≤ -1)
      have := (abs_le.mp hrnd).1
      linarith
    rw [hk, max_eq_right hr0]
    have e : ((ratRound p : ℤ) : ℚ) - ((r + b : ℤ) : ℚ) =
        (((ratRound p : ℤ) : ℚ) - p) + (p - req * (1 + C * a)) + (req * (1 + C * a) - req) := by rw [hreq]; ring
    rw [e]
    have t1 := abs_add_le ((((ratRound p : ℤ) : ℚ) - p) + (p - req * (1 + C * a))) (req * (1 + C * a) - req)
    have t2 := abs_add_le (((ratRound p : ℤ) : ℚ) - p) (p - req * (1 + C * a))
    have : a * req = a * ((r + b : ℤ) : ℚ) := by rw [hreq]
    linarith

/-! ### whole runs in rounded arithmetic -/

/-- one step of the carry bound (the inductive step of `C13_bounded`): an admissible step keeps the balance within
`B = (a·R + 1/2 + δ)/(1 − a)` -/
theorem carry_step (a δ R : ℚ) (ha0 : 0 ≤ a) (ha1 : a < 1) (hδ : 0 ≤ δ) (rate bal out : ℤ)
    (hr0 : 0 ≤ rate) (hrR : (rate : ℚ) ≤ R) (hb : |(bal : ℚ)| ≤ (a * R + 1 / 2 + δ) / (1 - a))
    (hstep : Admissible a δ (rate + bal) out) :
    |((rate + bal - out : ℤ) : ℚ)| ≤ (a * R + 1 / 2 + δ) / (1 - a) := by
  obtain ⟨ho, hneg, hpos⟩ := hstep
  have h1a : 0 < 1 - a := by linarith
  set B := (a * R + 1 / 2 + δ) / (1 - a) with hBdef
  have hfix : a * (R + B) + 1 / 2 + δ = B := by rw [hBdef]; field_simp; ring
  by_cases hreq : rate + bal ≤ 0
  · have ho0 := hneg hreq
    rw [ho0]
    have hbq : (bal : ℚ) ≤ 0 := by
      have : bal ≤ 0 := by omega
      exact_mod_cast this
    have h2 : ((rate + bal - 0 : ℤ) : ℚ) = (rate : ℚ) + bal := by push_cast; ring
    rw [h2]
    have hq : (rate : ℚ) + bal ≤ 0 := by exact_mod_cast hreq
    have hrq : (0 : ℚ) ≤ rate := by exact_mod_cast hr0
    rw [abs_le] at hb ⊢
    constructor <;> linarith [hb.1, hb.2]
  · have hreq' : 0 < rate + bal := by omega
    have h := hpos hreq'
    have hcast : ((rate + bal - out : ℤ) : ℚ) = -((out : ℚ) - ((rate + bal : ℤ) : ℚ)) := by push_cast; ring
    rw [hcast, abs_neg]
    have hreqle : ((rate + bal : ℤ) : ℚ) ≤ R + B := by
      push_cast
      have := (abs_le.mp hb).2
      linarith
    calc |(out : ℚ) - ((rate + bal : ℤ) : ℚ)| ≤ a * ((rate + bal : ℤ) : ℚ) + 1 / 2 + 1 / 1000 - 1 / 1000 + δ := by linarith
      _ ≤ a * (R + B) + 1 / 2 + δ := by nlinarith
      _ = B := hfix

/-- the balance the closure carries into tick `k`, in the arithmetic `F`, for the rate sequence `rates` and the cosine
values `cs` -/
def fBal (multiple : F) (rates : ℕ → ℤ) (cs : ℕ → F) : ℕ → F
  | 0 => FloatLike.ofLit 0 (-1)
  | k + 1 => (jitterStepG multiple (rates k) (fBal multiple rates cs k) (cs k)).1

def fOut (multiple : F) (rates : ℕ → ℤ) (cs : ℕ → F) (k : ℕ) : ℤ :=
  (jitterStepG multiple (rates k) (fBal multiple rates cs k) (cs k)).2

/-- **C13 about the code as it is now, in binary64 (any `FPSpec` arithmetic).** Along any run of the regenerated `WithJitter`
closure — rates in `[0, R]` with `R ≤ 10⁶`, jitter at most 99 %, any random outcomes — the float balance is at every tick
exactly the integer `Σ rate − Σ out` so far (nothing is lost), and it never leaves `±(j/100·R + 1/2 + 1/1000)/(1 − j/100)` -/
theorem C13_generated_run_float (multiple : F) (hJ0 : 0 ≤ S.toRat multiple) (hJ1 : S.toRat multiple ≤ 99)
    (R : ℚ) (hR : R ≤ 1000000) (rates : ℕ → ℤ) (cs : ℕ → F) (hc : ∀ k, |S.toRat (cs k)| ≤ 1)
    (hr : ∀ k, 0 ≤ rates k ∧ (rates k : ℚ) ≤ R) (n : ℕ) :
    S.toRat (fBal multiple rates cs n) = ((bal rates (fOut multiple rates cs) n : ℤ) : ℚ) ∧
    (Finset.range n).sum (fOut multiple rates cs) = (Finset.range n).sum rates - bal rates (fOut multiple rates cs) n ∧
    |((bal rates (fOut multiple rates cs) n : ℤ) : ℚ)| ≤ (S.toRat multiple / 100 * R + 1 / 2 + 1 / 1000) / (1 - S.toRat multiple / 100) := by
  set a := S.toRat multiple / 100 with ha
  have ha0 : 0 ≤ a := div_nonneg hJ0 (by norm_num)
  have ha1 : a ≤ 99 / 100 := by rw [ha]; linarith
  have ha1' : a < 1 := by linarith
  have hR0 : 0 ≤ R := le_trans (by exact_mod_cast (hr 0).1) (hr 0).2
  -- the bound itself is below 10⁹, so the step theorem applies at every tick
  have hBsmall : (a * R + 1 / 2 + 1 / 1000) / (1 - a) ≤ 100000100 := by
    rw [div_le_iff₀ (by linarith)]
    nlinarith
  have hB0 : 0 ≤ (a * R + 1 / 2 + 1 / 1000) / (1 - a) := by
    apply div_nonneg _ (by linarith); nlinarith
  have key : ∀ n, S.toRat (fBal multiple rates cs n) = ((bal rates (fOut multiple rates cs) n : ℤ) : ℚ) ∧
      |((bal rates (fOut multiple rates cs) n : ℤ) : ℚ)| ≤ (a * R + 1 / 2 + 1 / 1000) / (1 - a) := by
    intro n
    induction n with
    | zero => exact ⟨by simp [fBal, bal, S.ofLit_zero], by simpa [bal] using hB0⟩
    | succ n ih =>
      obtain ⟨ihb, ihB⟩ := ih
      have hrn := hr n
      have hrabs : |rates n| ≤ 1000000000 := by
        rw [abs_of_nonneg hrn.1]
        have : (rates n : ℚ) ≤ 1000000 := le_trans hrn.2 hR
        have : rates n ≤ 1000000 := by exact_mod_cast this
        omega
      have hbabs : |bal rates (fOut multiple rates cs) n| ≤ 1000000000 := by
        have : |((bal rates (fOut multiple rates cs) n : ℤ) : ℚ)| ≤ 1000000000 := by linarith
        exact_mod_cast this
      have hstep := jitterStepG_fp S (cs n) multiple hJ0 (by linarith) (hc n) (rates n)
        (bal rates (fOut multiple rates cs) n) hrabs hbabs (fBal multiple rates cs n) ihb
      simp only [] at hstep
      obtain ⟨hbal', hadm⟩ := hstep
      constructor
      · show S.toRat (jitterStepG multiple (rates n) (fBal multiple rates cs n) (cs n)).1 = _
        rw [hbal']; simp only [bal, fOut]
      · have := carry_step a (1 / 1000) R ha0 ha1' (by norm_num) (rates n) (bal rates (fOut multiple rates cs) n)
          (fOut multiple rates cs n) hrn.1 hrn.2 ihB hadm
        simpa only [bal] using this
  exact ⟨(key n).1, C13_telescope rates _ n, (key n).2⟩

end F1.Props.C13Float
