/-
C10 — staged and ramp profiles are the configured piecewise-linear shapes.
-/
import F1Verif.Model.Staged
namespace F1.Props.C10
open F1.Staged

/-! ### the interpolation inside one stage: 0 ≤ o < d -/

/-- within 1 of the exact value `s + o·(e−s)/d` (stated without division) -/
theorem interp_within_one (st : Stage) (o : Int) (hd : 0 < st.d) (ho : 0 ≤ o) :
    st.d * (interp st o - st.s) - st.d < o * (st.e - st.s) ∧ o * (st.e - st.s) < st.d * (interp st o - st.s) + st.d := by
  unfold interp
  have hx : st.s + (o * (st.e - st.s)).tdiv st.d - st.s = (o * (st.e - st.s)).tdiv st.d := by omega
  rw [hx]
  by_cases hes : 0 ≤ st.e - st.s
  · have hn : 0 ≤ o * (st.e - st.s) := Int.mul_nonneg ho hes
    rw [Int.tdiv_eq_ediv_of_nonneg hn]
    have h1 := Int.mul_ediv_add_emod (o * (st.e - st.s)) st.d
    have h2 := Int.emod_nonneg (o * (st.e - st.s)) (Int.ne_of_gt hd)
    have h3 := Int.emod_lt_of_pos (o * (st.e - st.s)) hd
    constructor <;> omega
  · have hn : 0 ≤ o * (st.s - st.e) := Int.mul_nonneg ho (by omega)
    have hneg : o * (st.e - st.s) = -(o * (st.s - st.e)) := by
      rw [← Int.mul_neg]; congr 1; omega
    rw [hneg, Int.neg_tdiv, Int.tdiv_eq_ediv_of_nonneg hn]
    have h1 := Int.mul_ediv_add_emod (o * (st.s - st.e)) st.d
    have h2 := Int.emod_nonneg (o * (st.s - st.e)) (Int.ne_of_gt hd)
    have h3 := Int.emod_lt_of_pos (o * (st.s - st.e)) hd
    rw [Int.mul_neg]
    constructor <;> omega

/-- never outside the stage's two targets -/
theorem interp_between (st : Stage) (o : Int) (hd : 0 < st.d) (ho : 0 ≤ o) (hod : o ≤ st.d) :
    min st.s st.e ≤ interp st o ∧ interp st o ≤ max st.s st.e := by
  unfold interp
  by_cases hes : 0 ≤ st.e - st.s
  · have hn : 0 ≤ o * (st.e - st.s) := Int.mul_nonneg ho hes
    rw [Int.tdiv_eq_ediv_of_nonneg hn]
    have h0 : 0 ≤ o * (st.e - st.s) / st.d := Int.ediv_nonneg hn (Int.le_of_lt hd)
    have hle : o * (st.e - st.s) ≤ st.d * (st.e - st.s) := Int.mul_le_mul_of_nonneg_right hod hes
    have h1 : o * (st.e - st.s) / st.d ≤ st.e - st.s := by
      have := Int.ediv_le_ediv hd hle
      rwa [Int.mul_ediv_cancel_left _ (Int.ne_of_gt hd)] at this
    rw [Int.min_def, Int.max_def]
    split <;> omega
  · have hn : 0 ≤ o * (st.s - st.e) := Int.mul_nonneg ho (by omega)
    have hneg : o * (st.e - st.s) = -(o * (st.s - st.e)) := by
      rw [← Int.mul_neg]; congr 1; omega
    rw [hneg, Int.neg_tdiv, Int.tdiv_eq_ediv_of_nonneg hn]
    have h0 : 0 ≤ o * (st.s - st.e) / st.d := Int.ediv_nonneg hn (Int.le_of_lt hd)
    have hle : o * (st.s - st.e) ≤ st.d * (st.s - st.e) := Int.mul_le_mul_of_nonneg_right hod (by omega)
    have h1 : o * (st.s - st.e) / st.d ≤ st.s - st.e := by
      have := Int.ediv_le_ediv hd hle
      rwa [Int.mul_ediv_cancel_left _ (Int.ne_of_gt hd)] at this
    rw [Int.min_def, Int.max_def]
    split <;> omega

/-- monotone within a stage, in the direction of the stage -/
theorem interp_monotone (st : Stage) (o₁ o₂ : Int) (hd : 0 < st.d) (h1 : 0 ≤ o₁) (h12 : o₁ ≤ o₂) :
    (st.s ≤ st.e → interp st o₁ ≤ interp st o₂) ∧ (st.e ≤ st.s → interp st o₂ ≤ interp st o₁) := by
  unfold interp
  have h2 : 0 ≤ o₂ := by omega
  constructor
  · intro hes
    have hes' : 0 ≤ st.e - st.s := by omega
    rw [Int.tdiv_eq_ediv_of_nonneg (Int.mul_nonneg h1 hes'), Int.tdiv_eq_ediv_of_nonneg (Int.mul_nonneg h2 hes')]
    have := Int.ediv_le_ediv hd (Int.mul_le_mul_of_nonneg_right h12 hes')
    omega
  · intro hes
    have hes' : 0 ≤ st.s - st.e := by omega
    have n1 : o₁ * (st.e - st.s) = -(o₁ * (st.s - st.e)) := by rw [← Int.mul_neg]; congr 1; omega
    have n2 : o₂ * (st.e - st.s) = -(o₂ * (st.s - st.e)) := by rw [← Int.mul_neg]; congr 1; omega
    rw [n1, n2, Int.neg_tdiv, Int.neg_tdiv, Int.tdiv_eq_ediv_of_nonneg (Int.mul_nonneg h1 hes'),
      Int.tdiv_eq_ediv_of_nonneg (Int.mul_nonneg h2 hes')]
    have := Int.ediv_le_ediv hd (Int.mul_le_mul_of_nonneg_right h12 hes')
    omega

theorem interp_start (st : Stage) : interp st 0 = st.s := by simp [interp]

/-! ### the cursor -/

/-- what the cursor loop returns: a suffix of the stage list, the start moved by the durations of
the skipped stages, and — if a stage is selected — an offset inside it -/
theorem skip_spec : ∀ (l : List Stage) (start now : Int), start ≤ now →
    ∃ k, (skip l start now).1 = l.drop k ∧ (skip l start now).2 = start + totalDuration (l.take k) ∧
      (skip l start now).2 ≤ now ∧
      (∀ st rest, (skip l start now).1 = st :: rest → now - (skip l start now).2 < st.d) := by
  intro l
  induction l with
  | nil => intro start now h; exact ⟨0, by simp [skip, totalDuration], by simp [skip, totalDuration], by simpa [skip] using h, by simp [skip]⟩
  | cons st rest ih =>
    intro start now h
    by_cases hs : now - start + 1 > st.d
    · obtain ⟨k, e1, e2, e3, e4⟩ := ih (start + st.d) now (by omega)
      refine ⟨k + 1, ?_, ?_, ?_, ?_⟩
      · simp [skip, hs, e1]
      · simp only [skip, hs, if_true, e2, List.take_succ_cons, totalDuration, List.map_cons, List.sum_cons]; omega
      · simpa [skip, hs] using e3
      · simpa [skip, hs] using e4
    · refine ⟨0, by simp [skip, hs], by simp [skip, hs, totalDuration], by simpa [skip, hs] using h, ?_⟩
      intro st' rest' he
      simp only [skip, hs, if_false] at he ⊢
      injection he with h1 _; subst h1
      omega

/-- zero-length stages are never selected -/
theorem C10_zero_length_skipped (l : List Stage) (start now : Int) (h : start ≤ now) (st : Stage) (rest : List Stage)
    (he : (skip l start now).1 = st :: rest) : 0 < st.d := by
  obtain ⟨_, _, _, e3, e4⟩ := skip_spec l start now h
  have := e4 st rest he
  omega

/-- querying twice, at non-decreasing times, moves the cursor exactly as querying the later time
from the beginning: the calculator has no memory beyond "how far time has advanced" -/
theorem skip_skip : ∀ (l : List Stage) (start now now' : Int), now ≤ now' →
    skip (skip l start now).1 (skip l start now).2 now' = skip l start now' := by
  intro l
  induction l with
  | nil => intro start now now' _; simp [skip]
  | cons st rest ih =>
    intro start now now' h
    by_cases hs : now - start + 1 > st.d
    · have hs' : now' - start + 1 > st.d := by omega
      simp only [skip, hs, hs', if_true]
      exact ih _ _ _ h
    · simp only [skip, hs, if_false]

/-- C10 (staged): queried at non-decreasing times, the stateful calculator yields, at every
query, the stateless piecewise-linear shape evaluated at that time. -/
theorem C10_staged_is_shape (stages : List Stage) (t0 : Int) :
    ∀ (ts : List Int) (c : Calc) (prev : Int), c.start = some (skip stages t0 prev).2 → c.rest = (skip stages t0 prev).1 →
      List.Pairwise (· ≤ ·) (prev :: ts) →
      c.runWith interp ts = ts.map (shape stages t0) := by
  intro ts
  induction ts with
  | nil => intro c prev _ _ _; rfl
  | cons t ts ih =>
    intro c prev hs hr hp
    have hpt : prev ≤ t := by
      have := List.rel_of_pairwise_cons hp (a' := t) (by simp)
      exact this
    have hstep : skip c.rest (c.start.getD t) t = skip stages t0 t := by
      rw [hs, hr]; simp only [Option.getD_some]
      exact skip_skip stages t0 prev t hpt
    simp only [Calc.runWith, List.map_cons]
    have hval : (c.rateWith interp t).1 = shape stages t0 t := by
      unfold Calc.rateWith shape
      simp only [hstep]
      split <;> rfl
    have hc' : (c.rateWith interp t).2.start = some (skip stages t0 t).2 ∧
        (c.rateWith interp t).2.rest = (skip stages t0 t).1 := by
      unfold Calc.rateWith
      simp only [hstep]
      split <;> simp_all
    rw [hval]
    congr 1
    exact ih _ t hc'.1 hc'.2 (List.Pairwise.of_cons hp |> fun h => by
      have := hp
      rw [List.pairwise_cons] at this
      obtain ⟨_, h2⟩ := this
      exact h2)

/-- the first query fixes the start when none was given -/
theorem C10_staged_from_first_query (l : List (Int × Int)) (t : Int) (ts : List Int)
    (hp : List.Pairwise (· ≤ ·) (t :: ts)) :
    (Calc.new l none).runWith interp (t :: ts) = (t :: ts).map (shape (mkStages l) t) := by
  simp only [Calc.runWith, List.map_cons]
  have hstep : skip (Calc.new l none).rest ((Calc.new l none).start.getD t) t = skip (mkStages l) t t := by
    simp [Calc.new]
  have hval : ((Calc.new l none).rateWith interp t).1 = shape (mkStages l) t t := by
    unfold Calc.rateWith shape; simp only [hstep]; split <;> rfl
  have hc' : ((Calc.new l none).rateWith interp t).2.start = some (skip (mkStages l) t t).2 ∧
      ((Calc.new l none).rateWith interp t).2.rest = (skip (mkStages l) t t).1 := by
    unfold Calc.rateWith; simp only [hstep]; split <;> simp_all
  rw [hval]; congr 1
  exact C10_staged_is_shape (mkStages l) t ts _ t hc'.1 hc'.2 hp

/-- the shape inside a stage: the selected stage is the one containing the elapsed time, the offset
is inside it, and the value is within 1 of the exact interpolation, between the two targets -/
theorem C10_staged_value (stages : List Stage) (t0 now : Int) (h : t0 ≤ now) (st : Stage) (rest : List Stage)
    (he : (skip stages t0 now).1 = st :: rest) :
    let o := now - (skip stages t0 now).2
    0 ≤ o ∧ o < st.d ∧ shape stages t0 now = interp st o ∧
    st.d * (interp st o - st.s) - st.d < o * (st.e - st.s) ∧ o * (st.e - st.s) < st.d * (interp st o - st.s) + st.d ∧
    min st.s st.e ≤ interp st o ∧ interp st o ≤ max st.s st.e := by
  obtain ⟨_, _, _, e3, e4⟩ := skip_spec stages t0 now h
  have hod := e4 st rest he
  have hd : 0 < st.d := by omega
  have ho : 0 ≤ now - (skip stages t0 now).2 := by omega
  have w := interp_within_one st _ hd ho
  have b := interp_between st _ hd ho (by omega)
  refine ⟨ho, hod, ?_, w.1, w.2, b.1, b.2⟩
  unfold shape; rw [he]

/-- 0 once all stages have elapsed -/
theorem C10_staged_after : ∀ (l : List Stage) (start now : Int), (∀ st ∈ l, 0 ≤ st.d) →
    totalDuration l ≤ now - start → (skip l start now).1 = [] := by
  intro l
  induction l with
  | nil => intro _ _ _ _; rfl
  | cons st rest ih =>
    intro start now hnn h
    have h0 : 0 ≤ totalDuration rest := by
      unfold totalDuration
      have : ∀ (l : List Stage), (∀ s ∈ l, 0 ≤ s.d) → 0 ≤ (l.map (·.d)).sum := by
        intro l; induction l with
        | nil => intro _; simp
        | cons a as ih2 => intro hh; simp only [List.map_cons, List.sum_cons]
                           have := hh a (by simp); have := ih2 (fun s hs => hh s (List.mem_cons_of_mem _ hs)); omega
      exact this rest (fun s hs => hnn s (List.mem_cons_of_mem _ hs))
    simp only [totalDuration, List.map_cons, List.sum_cons] at h
    have hs : now - start + 1 > st.d := by unfold totalDuration at h0; omega
    simp only [skip, hs, if_true]
    apply ih _ _ (fun s hs => hnn s (List.mem_cons_of_mem _ hs))
    unfold totalDuration at *; omega

theorem C10_shape_after (stages : List Stage) (t0 now : Int) (hnn : ∀ st ∈ stages, 0 ≤ st.d)
    (h : totalDuration stages ≤ now - t0) : shape stages t0 now = 0 := by
  unfold shape; rw [C10_staged_after stages t0 now hnn h]

/-- stage chaining: each stage starts from the previous stage's target, the first from 0 -/
theorem C10_chain : ∀ (prev : Int) (l : List (Int × Int)),
    (chain prev l).map (·.e) = l.map (·.2) ∧ (chain prev l).map (·.d) = l.map (·.1) ∧
    (chain prev l).map (·.s) = (prev :: l.map (·.2)).take l.length := by
  intro prev l
  induction l generalizing prev with
  | nil => simp [chain]
  | cons x xs ih =>
    obtain ⟨a, b, c⟩ := ih x.2
    simp [chain, a, b, c]

/-- the reported total duration is the sum of the stage durations -/
theorem C10_duration (l : List (Int × Int)) : totalDuration (mkStages l) = (l.map (·.1)).sum := by
  unfold totalDuration mkStages; rw [(C10_chain 0 l).2.1]

/-! ### ramp -/

theorem C10_ramp_value (r : Ramp) (t0 now : Int) (hd : 0 < r.duration) (h0 : t0 ≤ now) (h1 : now ≤ t0 + r.duration) :
    let o := now - t0
    let v := r.rate t0 now
    r.duration * (v - r.startRate) - r.duration < o * (r.endRate - r.startRate) ∧
    o * (r.endRate - r.startRate) < r.duration * (v - r.startRate) + r.duration ∧
    min r.startRate r.endRate ≤ v ∧ v ≤ max r.startRate r.endRate := by
  have hn : ¬ t0 + r.duration < now := by omega
  simp only [Ramp.rate, Ramp.rateWith, hn, if_false]
  have w := interp_within_one ⟨r.startRate, r.endRate, r.duration⟩ (now - t0) hd (by omega)
  have b := interp_between ⟨r.startRate, r.endRate, r.duration⟩ (now - t0) hd (by omega) (by simp; omega)
  exact ⟨w.1, w.2, b.1, b.2⟩

theorem C10_ramp_after (r : Ramp) (t0 now : Int) (h : t0 + r.duration < now) : r.rate t0 now = 0 := by
  simp [Ramp.rate, Ramp.rateWith, h]

theorem C10_ramp_ends (r : Ramp) (t0 : Int) (hd : 0 < r.duration) :
    r.rate t0 t0 = r.startRate ∧ r.rate t0 (t0 + r.duration) = r.endRate := by
  constructor
  · have : ¬ t0 + r.duration < t0 := by omega
    simp [Ramp.rate, Ramp.rateWith, this, interp]
  · have : ¬ t0 + r.duration < t0 + r.duration := by omega
    simp only [Ramp.rate, Ramp.rateWith, this, if_false, interp]
    have : t0 + r.duration - t0 = r.duration := by omega
    rw [this, Int.mul_comm, Int.mul_tdiv_cancel _ (Int.ne_of_gt hd)]; omega

theorem C10_ramp_monotone (r : Ramp) (t0 t₁ t₂ : Int) (hd : 0 < r.duration) (h0 : t0 ≤ t₁) (h12 : t₁ ≤ t₂)
    (h2 : t₂ ≤ t0 + r.duration) :
    (r.startRate ≤ r.endRate → r.rate t0 t₁ ≤ r.rate t0 t₂) ∧ (r.endRate ≤ r.startRate → r.rate t0 t₂ ≤ r.rate t0 t₁) := by
  have n1 : ¬ t0 + r.duration < t₁ := by omega
  have n2 : ¬ t0 + r.duration < t₂ := by omega
  simp only [Ramp.rate, Ramp.rateWith, n1, n2, if_false]
  exact interp_monotone ⟨r.startRate, r.endRate, r.duration⟩ (t₁ - t0) (t₂ - t0) hd (by omega) (by omega)

-- non-vacuity: 0→10 over 10 s, a zero-length jump to 50, hold 50 for 10 s; queried every 2.5 s
example : (Calc.new [(10000, 10), (0, 50), (10000, 50)] none).runWith interp
    [0, 2500, 5000, 7500, 9999, 10000, 12500, 19999, 20000, 30000] = [0, 2, 5, 7, 9, 50, 50, 50, 0, 0] := by decide

end F1.Props.C10
