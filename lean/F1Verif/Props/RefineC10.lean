/- C10 — the regenerated rate function of `CalculateRampRate` refines the ramp model (see Props/RefineBase.lean for
what a refinement theorem says and assumes) -/
import F1Verif.Props.RefineBase
import F1Verif.Model.Staged

namespace F1.Props.Refine
open F1.MiniGo F1.Generated.MG F1.Staged

section ramp
variable {F : Type} [FloatLike F]

/-- the interpolation as written, the float operations of the source one for one:
`start + int(float64(offset)/float64(duration) · float64(end − start))` -/
def interpG (st : Stage) (o : Int) : Int :=
  st.s + FloatLike.trunc (FloatLike.mul (FloatLike.div (FloatLike.ofInt o : F) (FloatLike.ofInt st.d)) (FloatLike.ofInt (st.e - st.s)))

/-- the state the closure captures: the ramp's parameters and the start time (`nil` until the first call) -/
def rampState (r : Ramp) (t0 : Option Int) (now : Int) : State F :=
  State.ofVars [("startTime", match t0 with | some t => .int t | none => .nil), ("arg3", .int r.duration),
    ("startRate", .int r.startRate), ("endRate", .int r.endRate), ("carg0", .int now)]

/-- one call of the regenerated ramp rate function, in any arithmetic: the first call fixes the start time; strictly after
`start + duration` the rate is 0; otherwise it is the interpolation between the two rates at the elapsed offset -/
theorem ramp_rateFn_refines (r : Ramp) (t0 : Option Int) (now : Int) :
    observe (runFn (F := F) (fun _ _ _ => .nil) 0 ramp_rateFn_body (rampState r t0 now)) ["startTime"] =
      some ([.int (r.rateWith (interpG (F := F)) (t0.getD now) now)], [some (.int (t0.getD now))]) := by
  cases t0 <;> simp [minigo, ramp_rateFn_body, rampState, Ramp.rateWith, interpG]
  all_goals (split <;> simp_all)

/-- at `Float` the interpolation is the `interpF` the driver runs for the bit-exact tie -/
theorem interpG_float (st : Stage) (o : Int) : interpG (F := Float) st o = interpF st o := rfl

end ramp
end F1.Props.Refine
