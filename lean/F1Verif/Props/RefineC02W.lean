/- C02 / C03 / C04 — the sequential code of the trigger pool and of the users pool, regenerated and executed by the MiniGo
semantics: what one tick does under the pool's lock (`sendJobsForExecution`, `Trigger`), and what one worker goroutine does
from start to exit (`TriggerPool.run`, `ContinuousPool.startWorker`). The interleaving models of Props/C02 and C04 cut
these functions into atomic steps; the theorems here say what the *sequence* of those steps is in the code as it is now. -/
import F1Verif.Props.RefineBase

namespace F1.Props.Refine
open F1.MiniGo F1.Generated.MG

section tick
variable {F : Type} [FloatLike F]

def dropLoop : Stmt :=
  (.while (.bin .lt (.var "$i0") (.var "$n0"))
  (.seq (.effect "recv.manager.activeScenario.RecordDroppedIteration")
  (.assign "$i0" (.bin .add (.var "$i0") (.int 1)))))

def tickState (n : Int) (running maxed : Bool) (mv jd : Val F) (n0 i0 : Val F) (c : Nat) (tr : List String) : State F :=
  ⟨[("arg0", .int n), ("recv.running()", .bool running), ("recv.manager.MaxIterationsReached()", .bool maxed),
    ("maxIterationsReached", mv), ("jobsDiscarded", jd), ("$n0", n0), ("$i0", i0)],
   [("recv.jobsToExecute.set", c)], tr, [], []⟩

theorem dropLoop_spec (ext : Ext F) (n : Int) (running maxed : Bool) (mv jd : Val F) (c : Nat) :
    ∀ (k : Nat) (d i : Int) (tr : List String) (fuel : Nat), k + 1 ≤ fuel → (d - i).toNat = k →
    exec ext fuel dropLoop (tickState n running maxed mv jd (.int d) (.int i) c tr) =
      .normal (tickState n running maxed mv jd (.int d) (.int (i + k)) c
        (List.replicate k "recv.manager.activeScenario.RecordDroppedIteration" ++ tr))
  | 0, d, i, tr, fuel, hf, hk => by
    obtain ⟨f, rfl⟩ : ∃ f, fuel = f + 1 := ⟨fuel - 1, by omega⟩
    have h : ¬ (i < d) := by omega
    simp [minigo, dropLoop, tickState, h]
  | k + 1, d, i, tr, fuel, hf, hk => by
    obtain ⟨f, rfl⟩ : ∃ f, fuel = f + 1 := ⟨fuel - 1, by omega⟩
    have h : i < d := by omega
    have ih := dropLoop_spec ext n running maxed mv jd c k d (i + 1)
      ("recv.manager.activeScenario.RecordDroppedIteration" :: tr) f (by omega) (by omega)
    simp [dropLoop, tickState] at ih
    simp [minigo, dropLoop, tickState, h, ih, List.replicate_succ']
    omega

/-- the pending counter is an external here: the swap returns what was pending (`old`) -/
def tickExt (old : Int) : Ext F := fun f _ _ => if f = "recv.jobsToExecute.set" then .int old else .nil

/-- **the regenerated `sendJobsForExecution`** (one tick, or the drain of `stop` with 0): under the lock — a tick with work
for a pool that is no longer running changes nothing; otherwise the pending counter is swapped for the new request and
the workers are woken, all before the lock is released; after it, the positive leftover is reported dropped once per
request, unless the iteration limit had been reached when the lock was held: then it is discarded silently. -/
theorem pool_sendJobs_refines (n old : Int) (running maxed : Bool) (mv jd n0 i0 : Val F) (c : Nat) (fuel : Nat)
    (hf : old.toNat + 1 ≤ fuel) :
    traceOf (runFn (tickExt old) fuel pool_sendJobs (tickState n running maxed mv jd n0 i0 c [])) =
      (if n > 0 ∧ running = false then ["recv.jobsAvailableCond.L.Lock", "recv.jobsAvailableCond.L.Unlock"]
       else ["recv.jobsAvailableCond.L.Lock", "recv.jobsAvailableCond.Broadcast", "recv.jobsAvailableCond.L.Unlock"] ++
         (if maxed then [] else List.replicate old.toNat "recv.manager.activeScenario.RecordDroppedIteration")) ∧
    observeC (runFn (tickExt old) fuel pool_sendJobs (tickState n running maxed mv jd n0 i0 c [])) [] ["recv.jobsToExecute.set"] =
      some ([], [], [if n > 0 ∧ running = false then c else c + 1]) := by
  by_cases h1 : n > 0 ∧ running = false
  · obtain ⟨hn, hr⟩ := h1
    subst hr
    simp [minigo, pool_sendJobs, tickState, hn]
  · have h1' : ¬ (n > 0 ∧ running = false) := h1
    cases maxed
    · have hl := dropLoop_spec (tickExt (F := F) old) n running false (.bool false) (.int old) (c + 1) old.toNat
        old 0 ["recv.jobsAvailableCond.L.Unlock", "recv.jobsAvailableCond.Broadcast", "recv.jobsAvailableCond.L.Lock"]
        fuel hf (by omega)
      simp [dropLoop, tickState] at hl
      by_cases hn : n > 0
      · have hr : running = true := by
          cases running <;> simp_all
        subst hr
        simp [minigo, pool_sendJobs, tickState, tickExt, hn, hl]
      · simp [minigo, pool_sendJobs, tickState, tickExt, hn, hl]
    · by_cases hn : n > 0
      · have hr : running = true := by
          cases running <;> simp_all
        subst hr
        simp [minigo, pool_sendJobs, tickState, tickExt, hn]
      · simp [minigo, pool_sendJobs, tickState, tickExt, hn]

/-- **the regenerated `Trigger`**: a tick that finds the context done requests nothing; otherwise it hands exactly the
number it was given to `sendJobsForExecution` -/
theorem pool_Trigger_refines (ext : Ext F) (n : Int) (cancelled : Bool) (fuel : Nat) :
    traceOf (runFn ext fuel pool_Trigger (State.ofVars [("arg0.Err()", if cancelled then .nonNil else .nil), ("arg1", .int n)])) =
      (if cancelled then [] else ["hook pool.trigger.accepted", "recv.sendJobsForExecution(…)"]) ∧
    observe (runFn ext fuel pool_Trigger (State.ofVars [("arg0.Err()", if cancelled then .nonNil else .nil), ("arg1", .int n)]))
        ["$arg.recv.sendJobsForExecution.0"] = some ([], [if cancelled then none else some (.int n)]) := by
  cases cancelled <;> simp [minigo, pool_Trigger]

end tick

/-! #### one worker goroutine, from start to exit -/

section worker
variable {F : Type} [FloatLike F]

/-- what drives a worker: whether the pool is still running at its k-th look, whether the counter is empty / a job could
be taken at the k-th round, whether the j-th request for an iteration id is refused (limit reached), and the ids -/
structure WorkerScript where
  running : Nat → Bool
  none : Nat → Bool
  take : Nat → Bool
  refused : Nat → Bool
  id : Nat → Int

def poolWorkerExt (W : WorkerScript) : Ext F := fun f n args =>
  if f = "recv.running" then .bool (W.running n)
  else if f = "recv.jobsToExecute.none" then .bool (W.none n)
  else if f = "recv.jobsToExecute.take" then .bool (W.take n)
  else if f = "NextIteration" then
    (match args with | .int 0 :: _ => .int (W.id n) | _ => if W.refused n then .nonNil else .nil)
  else if f = "strconv.FormatUint" then (match args with | [.int i, _] => .ref i.toNat | _ => .nil)
  else .nil

def runLoop : Stmt :=
  (.while (.call0 "recv.running")
  (.seq (.ite (.call0 "recv.jobsToExecute.none")
  (.effect "recv.waitForNewJobs")
  .skip)
  (.seq (.effect "hook pool.worker.pretake")
  (.ite (.call0 "recv.jobsToExecute.take")
  (.seq (.callS ["iteration", "err"] "NextIteration" "" [(.var "recv.manager")])
  (.seq (.ite (.bin .ne (.var "err") .nil)
  (.seq (.effect "recv.maxIterationsReached")
  .ret0)
  .skip)
  (.seq (.seq (.assign "$arg.arg0.t.Reset.0" (.call2 "strconv.FormatUint" (.var "iteration") (.int 10)))
  (.effect "arg0.t.Reset(…)"))
  (.seq (.assign "$arg.recv.manager.activeScenario.Run.0" (.var "arg0"))
  (.effect "recv.manager.activeScenario.Run(…)")))))
  .skip))))

/-- the effects of the worker loop from round `r` (look number `r`, `j` ids requested so far), oldest first; `none` when
the loop does not end within `fuel` rounds -/
def workerRounds (W : WorkerScript) : Nat → Nat → Nat → Option (List String)
  | 0, _, _ => none
  | f + 1, r, j =>
    if W.running r = false then some [] else
    let pre := (if W.none r then ["recv.waitForNewJobs"] else []) ++ ["hook pool.worker.pretake"]
    if W.take r = false then (workerRounds W f (r + 1) j).map (pre ++ ·)
    else if W.refused j then some (pre ++ ["recv.maxIterationsReached"])
    else (workerRounds W f (r + 1) (j + 1)).map (pre ++ ["arg0.t.Reset(…)", "recv.manager.activeScenario.Run(…)"] ++ ·)

def pwState (me mgr it er a1 a2 : Val F) (r j : Nat) (log : List (List (String × Val F))) (tr df : List String) : State F :=
  ⟨[("arg0", me), ("recv.manager", mgr), ("iteration", it), ("err", er), ("$arg.arg0.t.Reset.0", a1),
    ("$arg.recv.manager.activeScenario.Run.0", a2)],
   [("recv.running", r), ("recv.jobsToExecute.none", r), ("recv.jobsToExecute.take", r), ("NextIteration", j),
    ("strconv.FormatUint", j)], tr, df, [("NextIteration", log)]⟩

/-- the effects so far (oldest first) and the calls still deferred -/
def obsTrace (o : Outcome F) : Option (List String × List String) :=
  match o with
  | .normal s | .returned _ s => some (s.trace.reverse, s.defers)
  | _ => none

theorem runLoop_spec (W : WorkerScript) (me mgr : Val F) (df : List String) :
    ∀ (fuel r j : Nat) (it er a1 a2 : Val F) (log : List (List (String × Val F))) (tr : List String),
    obsTrace (exec (poolWorkerExt W) fuel runLoop (pwState me mgr it er a1 a2 r j log tr df)) =
      (workerRounds W fuel r j).map (fun t => (tr.reverse ++ t, df))
  | 0, r, j, it, er, a1, a2, log, tr => by simp [minigo, runLoop, pwState, workerRounds, obsTrace]
  | f + 1, r, j, it, er, a1, a2, log, tr => by
    by_cases hr : W.running r = true
    · by_cases ht : W.take r = true
      · by_cases hx : W.refused j = true
        · cases hn : W.none r <;>
            simp [minigo, runLoop, pwState, workerRounds, poolWorkerExt, obsTrace, hr, ht, hx, hn]
        · cases hn : W.none r
          · have ih := runLoop_spec W me mgr df f (r + 1) (j + 1) (.int (W.id j)) .nil (.ref (W.id j).toNat) me
              (log ++ [[("0", mgr)]])
              ("recv.manager.activeScenario.Run(…)" :: "arg0.t.Reset(…)" :: "hook pool.worker.pretake" :: tr)
            simp [runLoop, pwState] at ih
            simp [minigo, runLoop, pwState, workerRounds, poolWorkerExt, hr, ht, hx, hn]
            rw [ih]
            cases workerRounds W f (r + 1) (j + 1) <;> simp
          · have ih := runLoop_spec W me mgr df f (r + 1) (j + 1) (.int (W.id j)) .nil (.ref (W.id j).toNat) me
              (log ++ [[("0", mgr)]])
              ("recv.manager.activeScenario.Run(…)" :: "arg0.t.Reset(…)" :: "hook pool.worker.pretake" :: "recv.waitForNewJobs" :: tr)
            simp [runLoop, pwState] at ih
            simp [minigo, runLoop, pwState, workerRounds, poolWorkerExt, hr, ht, hx, hn]
            rw [ih]
            cases workerRounds W f (r + 1) (j + 1) <;> simp
      · cases hn : W.none r
        · have ih := runLoop_spec W me mgr df f (r + 1) j it er a1 a2 log ("hook pool.worker.pretake" :: tr)
          simp [runLoop, pwState] at ih
          simp [minigo, runLoop, pwState, workerRounds, poolWorkerExt, hr, ht, hn]
          rw [ih]
          cases workerRounds W f (r + 1) j <;> simp
        · have ih := runLoop_spec W me mgr df f (r + 1) j it er a1 a2 log ("hook pool.worker.pretake" :: "recv.waitForNewJobs" :: tr)
          simp [runLoop, pwState] at ih
          simp [minigo, runLoop, pwState, workerRounds, poolWorkerExt, hr, ht, hn]
          rw [ih]
          cases workerRounds W f (r + 1) j <;> simp
    · simp [minigo, runLoop, pwState, workerRounds, poolWorkerExt, obsTrace, hr]

/-- the effects of a finished call, oldest first (`none`: it did not finish) -/
def traceOpt (r : Except String (List (Val F) × State F)) : Option (List String) :=
  match r with
  | .ok (_, s) => some s.trace.reverse
  | .error _ => none

theorem finish_obsTrace (o : Outcome F) (df t : List String) (ht : obsTrace o = some (t, df)) :
    traceOpt (finish o) = some (t ++ df) := by
  cases o with
  | normal s => simp [obsTrace] at ht; simp [finish, traceOpt, ht]
  | returned vs s => simp [obsTrace] at ht; simp [finish, traceOpt, ht]
  | error m => simp [obsTrace] at ht
  | panicked s => simp [obsTrace] at ht

/-- **the regenerated `TriggerPool.run`** (one worker goroutine): it reports itself started, then round after round — while
the pool is running — waits if nothing is pending, tries to take a job, and for a job taken asks for an iteration id;
a refused id (limit reached) makes it discard pending work and cancel the pool (`maxIterationsReached`) and leave; an
id granted is followed by `Reset` of *its* handle and then `Run`. Whichever way it leaves, its last act is `Done` on the
manager's wait group (deferred), exactly once. -/
theorem pool_run_refines (W : WorkerScript) (me mgr it er a1 a2 : Val F) (r j : Nat) (log : List (List (String × Val F)))
    (fuel : Nat) (t : List String) (h : workerRounds W fuel r j = some t) :
    traceOpt (runFn (poolWorkerExt W) fuel pool_run (pwState me mgr it er a1 a2 r j log [] [])) =
      some (["arg1.Done"] ++ t ++ ["recv.manager.runningWorkers.Done"]) := by
  have hl := runLoop_spec W me mgr ["recv.manager.runningWorkers.Done"] fuel r j it er a1 a2 log ["arg1.Done"]
  rw [h] at hl
  simp [runLoop, pwState] at hl
  have := finish_obsTrace _ _ _ hl
  simp [minigo, pool_run, pwState]
  simpa using this

/-- one round in which a job is taken and an id granted: the id asked of *the pool's manager* is the one the handle is
reset with (as its decimal string), and the iteration is run on *this worker's own* state -/
theorem pool_run_round (W : WorkerScript) (me mgr it er a1 a2 : Val F) (log : List (List (String × Val F)))
    (h0 : W.running 0 = true) (h1 : W.running 1 = false) (ht : W.take 0 = true) (hr : W.refused 0 = false) :
    (match runFn (poolWorkerExt W) 2 pool_run (pwState me mgr it er a1 a2 0 0 log [] []) with
     | .ok (_, s) => s.get "$arg.arg0.t.Reset.0" = some (.ref (W.id 0).toNat) ∧
         s.get "$arg.recv.manager.activeScenario.Run.0" = some me ∧
         lookup "NextIteration" s.arrs = some (log ++ [[("0", mgr)]])
     | .error _ => False) := by
  cases hn : W.none 0 <;> simp [minigo, pool_run, pwState, poolWorkerExt, h0, h1, ht, hr, hn]

/-! the users pool's worker -/

def usersLoop : Stmt :=
  (.while (.not (.load "recv.stopWorkers"))
  (.seq (.callS ["iteration", "err"] "NextIteration" "" [(.var "recv.manager")])
  (.seq (.ite (.bin .ne (.var "err") .nil)
  (.seq (.effect "recv.maxIterationsReached")
  .ret0)
  .skip)
  (.seq (.seq (.assign "$arg.arg0.t.Reset.0" (.call2 "strconv.FormatUint" (.var "iteration") (.int 10)))
  (.effect "arg0.t.Reset(…)"))
  (.seq (.assign "$arg.recv.manager.activeScenario.Run.0" (.var "arg0"))
  (.effect "recv.manager.activeScenario.Run(…)"))))))

/-- the users worker from id request `j` on, while the stop flag stays down: iteration after iteration until an id is
refused -/
def usersRounds (W : WorkerScript) : Nat → Nat → Option (List String)
  | 0, _ => none
  | f + 1, j =>
    if W.refused j then some ["recv.maxIterationsReached"]
    else (usersRounds W f (j + 1)).map (["arg0.t.Reset(…)", "recv.manager.activeScenario.Run(…)"] ++ ·)

def usersState (me mgr it er a1 a2 : Val F) (stop : Bool) (j : Nat) (log : List (List (String × Val F))) (tr df : List String) : State F :=
  ⟨[("arg0", me), ("recv.manager", mgr), ("recv.stopWorkers", .bool stop), ("iteration", it), ("err", er),
    ("$arg.arg0.t.Reset.0", a1), ("$arg.recv.manager.activeScenario.Run.0", a2)],
   [("NextIteration", j), ("strconv.FormatUint", j)], tr, df, [("NextIteration", log)]⟩

theorem usersLoop_spec (W : WorkerScript) (me mgr : Val F) (df : List String) :
    ∀ (fuel j : Nat) (it er a1 a2 : Val F) (log : List (List (String × Val F))) (tr : List String),
    obsTrace (exec (poolWorkerExt W) fuel usersLoop (usersState me mgr it er a1 a2 false j log tr df)) =
      (usersRounds W fuel j).map (fun t => (tr.reverse ++ t, df))
  | 0, j, it, er, a1, a2, log, tr => by simp [minigo, usersLoop, usersState, usersRounds, obsTrace]
  | f + 1, j, it, er, a1, a2, log, tr => by
    by_cases hx : W.refused j = true
    · simp [minigo, usersLoop, usersState, usersRounds, poolWorkerExt, obsTrace, hx]
    · have ih := usersLoop_spec W me mgr df f (j + 1) (.int (W.id j)) .nil (.ref (W.id j).toNat) me (log ++ [[("0", mgr)]])
        ("recv.manager.activeScenario.Run(…)" :: "arg0.t.Reset(…)" :: tr)
      simp [usersLoop, usersState] at ih
      simp [minigo, usersLoop, usersState, usersRounds, poolWorkerExt, hx]
      rw [ih]
      cases usersRounds W f (j + 1) <;> simp

/-- **the regenerated `ContinuousPool.startWorker`**: the worker reports itself started and waits for the others (the start
barrier) before its first iteration; with the stop flag up it runs nothing; otherwise iterations follow one another, each
with a fresh id, until one is refused; `Done` on the manager's wait group is its last act -/
theorem cpool_startWorker_refines (W : WorkerScript) (me mgr it er a1 a2 : Val F) (stop : Bool) (j : Nat)
    (log : List (List (String × Val F))) (fuel : Nat) (t : List String) (h : usersRounds W fuel j = some t) :
    traceOpt (runFn (poolWorkerExt W) fuel cpool_startWorker (usersState me mgr it er a1 a2 stop j log [] [])) =
      some (["arg1.Done", "arg1.Wait"] ++ (if stop then [] else t) ++ ["recv.manager.runningWorkers.Done"]) := by
  cases stop
  · have hl := usersLoop_spec W me mgr ["recv.manager.runningWorkers.Done"] fuel j it er a1 a2 log ["arg1.Wait", "arg1.Done"]
    rw [h] at hl
    simp [usersLoop, usersState] at hl
    have := finish_obsTrace _ _ _ hl
    simp [minigo, cpool_startWorker, usersState]
    simpa using this
  · cases fuel with
    | zero => simp [usersRounds] at h
    | succ f => simp [minigo, cpool_startWorker, usersState, traceOpt]

/-- like `obsTrace`, for code that can only fall off its end -/
def obsN (o : Outcome F) : Option (List String × List String) :=
  match o with
  | .normal s => some (s.trace.reverse, s.defers)
  | _ => none

def waitLoop : Stmt :=
  (.while (.bin .land (.call0 "recv.jobsToExecute.none") (.call0 "recv.running"))
  (.effect "recv.jobsAvailableCond.Wait"))

/-- how often the worker goes to sleep: as long as nothing is pending and the pool is running -/
def waitsCount (W : WorkerScript) : Nat → Nat → Nat → Option Nat
  | 0, _, _ => none
  | f + 1, nn, nr =>
    if W.none nn = true then (if W.running nr = true then (waitsCount W f (nn + 1) (nr + 1)).map (· + 1) else some 0)
    else some 0

theorem waitLoop_spec (W : WorkerScript) (df : List String) : ∀ (fuel nn nr : Nat) (tr : List String),
    obsN (exec (poolWorkerExt (F := F) W) fuel waitLoop
        ⟨[], [("recv.jobsToExecute.none", nn), ("recv.running", nr)], tr, df, []⟩) =
      (waitsCount W fuel nn nr).map fun k => (tr.reverse ++ List.replicate k "recv.jobsAvailableCond.Wait", df)
  | 0, nn, nr, tr => by simp [minigo, waitLoop, waitsCount, obsN]
  | f + 1, nn, nr, tr => by
    by_cases hn : W.none nn = true
    · by_cases hr : W.running nr = true
      · have ih := waitLoop_spec W df f (nn + 1) (nr + 1) ("recv.jobsAvailableCond.Wait" :: tr)
        simp [waitLoop] at ih
        simp [minigo, waitLoop, waitsCount, poolWorkerExt, hn, hr]
        rw [ih]
        cases waitsCount W f (nn + 1) (nr + 1) <;> simp [List.replicate_succ]
      · simp [minigo, waitLoop, waitsCount, poolWorkerExt, obsN, hn, hr]
    · simp [minigo, waitLoop, waitsCount, poolWorkerExt, obsN, hn]

/-- **the regenerated `waitForNewJobs`**: the emptiness test, the stop test and every wait happen with the pool's lock
held (the lock the tick's swap-and-broadcast holds too: no wake-up can fall between the test and the wait); the worker
sleeps only while nothing is pending *and* the pool is running -/
theorem pool_waitForNewJobs_refines (W : WorkerScript) (fuel nn nr k : Nat) (h : waitsCount W fuel nn nr = some k) :
    traceOpt (runFn (poolWorkerExt (F := F) W) fuel pool_waitForNewJobs
        ⟨[], [("recv.jobsToExecute.none", nn), ("recv.running", nr)], [], [], []⟩) =
      some (["recv.jobsAvailableCond.L.Lock"] ++ List.replicate k "recv.jobsAvailableCond.Wait" ++ ["recv.jobsAvailableCond.L.Unlock"]) := by
  have hl := waitLoop_spec (F := F) W [] fuel nn nr ["recv.jobsAvailableCond.L.Lock"]
  rw [h] at hl
  simp [waitLoop] at hl
  simp [minigo, pool_waitForNewJobs]
  generalize exec (poolWorkerExt (F := F) W) fuel _ _ = o at hl ⊢
  cases o with
  | normal s => simp [obsN] at hl; simp [minigo, traceOpt, hl, exec]
  | returned vs s => simp [obsN] at hl
  | error m => simp [obsN] at hl
  | panicked s => simp [obsN] at hl

/-- a worker that finds the pool stopped at its first look does nothing but report in and out; one that is refused an id
stops the pool; the premises of `pool_run_refines` are satisfiable -/
example : workerRounds ⟨fun k => decide (k < 3), fun k => decide (k = 1), fun _ => true, fun j => decide (j = 2), fun j => j + 1⟩ 10 0 0 =
    some ["hook pool.worker.pretake", "arg0.t.Reset(…)", "recv.manager.activeScenario.Run(…)",
          "recv.waitForNewJobs", "hook pool.worker.pretake", "arg0.t.Reset(…)", "recv.manager.activeScenario.Run(…)",
          "hook pool.worker.pretake", "recv.maxIterationsReached"] := by
  simp [workerRounds]

end worker
end F1.Props.Refine
