/- C14 / C11 — `gaussian.CalculateGaussianRate`, regenerated: the weights string is split, empty items are skipped, every
other item is parsed in order and the first one that does not parse ends the call with an error; the calculator is built
from exactly the parsed weights (with peak, standard deviation, frequency, volume and repeat window in their places); its
error ends the call; the tick interval handed to `NewDistribution` is the iteration frequency. This is the order of checks
of `Plan.calcGaussian` (weights, then what `NewCalculator` refuses, then the distribution). -/
import F1Verif.Props.RefineBase

namespace F1.Props.Refine
open F1.MiniGo F1.Generated.MG

/-- the items of the split weights string: item `k` is the value `.ref (100 + k)`; `empty k`: it is the empty string;
`bad k`: `strconv.ParseFloat` refuses it; parsed, it is `.ref (200 + k)` -/
structure Weights where
  empty : Nat → Bool
  bad   : Nat → Bool

def cgExt (W : Weights) (calcErr distErr : Bool) (tick : Int) : Ext Rat := fun f _ args =>
  if f = "len()" then (match args with
    | [.ref r] => .int (if W.empty (r - 100) then 0 else 1)
    | _ => .nil)
  else if f = "strconv.ParseFloat" then (match args with
    | [.int 0, .ref r, _] => .ref (r + 100)
    | [.int _, .ref r, _] => if W.bad (r - 100) then .nonNil else .nil
    | _ => .nil)
  else if f = "NewCalculator" then (if args.head? = some (.int 0) then .ref 60 else if calcErr then .nonNil else .nil)
  else if f = "api.NewDistribution" then
    (if args.head? = some (.int 0) then .int tick else if args.head? = some (.int 1) then .ref 51
     else if distErr then .nonNil else .nil)
  else if f = "api.WithJitter" then .ref 52
  else if f = "api.DistributionType" then (match args with | [v] => v | _ => .nil)
  else if f = "For" then .ref 61
  else .nil

def wLoop : Stmt :=
  (.while (.bin .lt (.var "$i0") (.var "$n0"))
  (.seq (.assign "s" (.index "weights" (.var "$i0") ""))
  (.seq (.ite (.bin .eq (.field (.var "s") "len()") (.int 0))
  .skip
  (.seq (.callS ["weight", "err"] "strconv.ParseFloat" "" [(.var "s"), (.int 64)])
  (.seq (.ite (.bin .ne (.var "err") .nil)
  (.ret2 .nil .fresh)
  .skip)
  (.append "weightsSlice" (.var "weight")))))
  (.assign "$i0" (.bin .add (.var "$i0") (.int 1))))))

/-- the parsed weights collected from items `i ..< i + k` on top of `acc`; `none`: an item did not parse -/
def collect (W : Weights) : Nat → Nat → List Nat → Option (List Nat)
  | _, 0, acc => some acc
  | i, k + 1, acc =>
    if W.empty i then collect W (i + 1) k acc
    else if W.bad i then none
    else collect W (i + 1) k (acc ++ [i])

def wItems (n : Nat) : List (List (String × Val Rat)) := (List.range n).map fun k => [("", Val.ref (100 + k))]
def wParsed (acc : List Nat) : List (List (String × Val Rat)) := acc.map fun k => [("", Val.ref (200 + k))]

def wState (n : Nat) (i : Int) (s weight err ws : Val Rat) (acc : List Nat) (c : Nat)
    (plog : List (List (String × Val Rat))) : State Rat :=
  ⟨[("arg0", .int 1000), ("arg1", .int 0), ("arg2", .int 3600), ("arg3", .int 1), ("arg4", .int 1800), ("arg5", .int 60),
    ("arg6", .ref 1), ("arg7", .ref 2), ("weights", .ref 3), ("weightsSlice", ws), ("$n0", .int n), ("$i0", .int i),
    ("s", s), ("weight", weight), ("err", err)],
   [("strings.Split", 1), ("strconv.ParseFloat", c)], [], [],
   [("weights", wItems n), ("weightsSlice", wParsed acc), ("strconv.ParseFloat", plog)]⟩

/-- what the loop leaves behind: did it return early, and the weights collected so far -/
def obsW (o : Outcome Rat) : Option (Bool × Option (List (List (String × Val Rat)))) :=
  match o with
  | .normal s => some (false, lookup "weightsSlice" s.arrs)
  | .returned _ s => some (true, lookup "weightsSlice" s.arrs)
  | _ => none

/-- the state `CalculateGaussianRate` starts in (locals declared) -/
def gState0 (n : Nat) (l : List (Val Rat)) : State Rat :=
  ⟨[("arg0", .int 1000), ("arg1", .int 0), ("arg2", .int 3600), ("arg3", .int 1), ("arg4", .int 1800), ("arg5", .int 60),
    ("arg6", .ref 1), ("arg7", .ref 2), ("weights", l.getD 0 .nil), ("weightsSlice", l.getD 1 .nil), ("$n0", l.getD 2 .nil),
    ("$i0", l.getD 3 .nil), ("s", l.getD 4 .nil), ("weight", l.getD 5 .nil), ("err", l.getD 6 .nil)],
   [("strings.Split", 0), ("strconv.ParseFloat", 0)], [], [],
   [("weights", wItems n), ("weightsSlice", []), ("strconv.ParseFloat", [])]⟩

def splitExt (W : Weights) (ce de : Bool) (tick : Int) : Ext Rat := fun f k args =>
  if f = "strings.Split" then .ref 3 else cgExt W ce de tick f k args

theorem wLoop_collect (W : Weights) (ce de : Bool) (tick : Int) (n : Nat) :
    ∀ (k i : Nat) (s weight err : Val Rat) (acc : List Nat) (c : Nat) (plog : List (List (String × Val Rat))) (fuel : Nat),
    i + k = n → k + 1 ≤ fuel →
    (match collect W i k acc with
      | some acc' => ∃ s' w' e' c' pl', exec (splitExt W ce de tick) fuel wLoop (wState n i s weight err .nonNil acc c plog) =
          .normal (wState n n s' w' e' .nonNil acc' c' pl')
      | none => ∃ s', exec (splitExt W ce de tick) fuel wLoop (wState n i s weight err .nonNil acc c plog) =
          .returned [.nil, .nonNil] s')
  | 0, i, s, weight, err, acc, c, plog, fuel, hik, hf => by
    obtain ⟨f, rfl⟩ : ∃ f, fuel = f + 1 := ⟨fuel - 1, by omega⟩
    have : i = n := by omega
    subst this
    simp only [collect]
    exact ⟨s, weight, err, c, plog, by simp [minigo, wLoop, wState]⟩
  | k + 1, i, s, weight, err, acc, c, plog, fuel, hik, hf => by
    obtain ⟨f, rfl⟩ : ∃ f, fuel = f + 1 := ⟨fuel - 1, by omega⟩
    have h1 : (i : Int) < n := by omega
    have h2 : ¬ ((i : Int) < 0) := by omega
    have hlt : i < n := by omega
    have hr : (List.range n)[i]? = some i := by simp [hlt]
    have hri : 100 + i + 100 = 200 + i := by omega
    cases he : W.empty i
    · cases hb : W.bad i
      · have ih := wLoop_collect W ce de tick n k (i + 1) (.ref (100 + i)) (.ref (200 + i)) .nil (acc ++ [i])
          (c + 1) (plog ++ [[("0", .ref (100 + i)), ("1", .int 64)]]) f (by omega) (by omega)
        simp only [collect, he, hb]
        have step : exec (splitExt W ce de tick) (f + 1) wLoop (wState n i s weight err .nonNil acc c plog) =
            exec (splitExt W ce de tick) f wLoop (wState n (i + 1) (.ref (100 + i)) (.ref (200 + i)) .nil .nonNil (acc ++ [i])
              (c + 1) (plog ++ [[("0", .ref (100 + i)), ("1", .int 64)]])) := by
          simp [minigo, wLoop, wState, wItems, wParsed, splitExt, cgExt, h1, h2, hr, he, hb, hri]
        rw [step]
        exact ih
      · simp only [collect, he, hb]
        simp [minigo, wLoop, wState, wItems, wParsed, splitExt, cgExt, h1, h2, hr, he, hb, hri]
    · have ih := wLoop_collect W ce de tick n k (i + 1) (.ref (100 + i)) weight err acc c plog f (by omega) (by omega)
      simp only [collect, he]
      have step : exec (splitExt W ce de tick) (f + 1) wLoop (wState n i s weight err .nonNil acc c plog) =
          exec (splitExt W ce de tick) f wLoop (wState n (i + 1) (.ref (100 + i)) weight err .nonNil acc c plog) := by
        simp [minigo, wLoop, wState, wItems, wParsed, splitExt, cgExt, h1, h2, hr, he]
      rw [step]
      exact ih

/-- **the regenerated `CalculateGaussianRate`** (C14, C11). An item of the weights that does not parse ends the call with an
error before anything is built. Otherwise the calculator is built from exactly the parsed, non-empty items, in order, with
peak, standard deviation, frequency, volume and repeat window each in its place; its refusal (D17, D28) ends the call; the
jittered `For` goes to `NewDistribution` with the *frequency* as tick interval; its refusal ends the call; the trigger's tick
interval and rate function are what `NewDistribution` returned -/
theorem calc_gaussian_refines (W : Weights) (ce de : Bool) (tick : Int) (n : Nat) (l : List (Val Rat)) (fuel : Nat)
    (hf : n + 1 ≤ fuel) :
    match collect W 0 n [] with
    | none => observe (runFn (splitExt W ce de tick) fuel calc_gaussian (gState0 n l)) [] = some ([.nil, .nonNil], [])
    | some acc =>
      (match runFn (splitExt W ce de tick) fuel calc_gaussian (gState0 n l) with
       | .ok (vs, s) =>
          vs = (if ce ∨ de then [.nil, .nonNil] else [.nonNil, .nil]) ∧
          lookup "weightsSlice" s.arrs = some (wParsed acc) ∧
          lookup "NewCalculator" s.arrs = some [[("0", Val.int 1800), ("1", Val.int 60), ("2", Val.int 1), ("3", Val.nonNil),
            ("4", Val.int 1000), ("5", Val.int 3600)]] ∧
          (ce = false → lookup "api.NewDistribution" s.arrs =
            some [[("0", Val.ref 2), ("1", Val.int 1), ("2", Val.ref 52), ("3", Val.nil)]]) ∧
          (ce = false → de = false → s.get "$ret.IterationDuration" = some (.int tick) ∧ s.get "$ret.Rate" = some (.ref 51))
       | .error _ => False) := by
  have hl : (wItems n).length = n := by simp [wItems]
  have h := wLoop_collect W ce de tick n n 0 (l.getD 4 .nil) (l.getD 5 .nil) (l.getD 6 .nil) [] 0 [] fuel (by omega) hf
  cases hc : collect W 0 n [] with
  | none =>
    simp only [hc] at h
    obtain ⟨s', h⟩ := h
    simp [wLoop, wState, wParsed] at h
    simp [minigo, calc_gaussian, gState0, splitExt, hl, h]
  | some acc =>
    simp only [hc] at h
    obtain ⟨s', w', e', c', pl', h⟩ := h
    simp [wLoop, wState, wParsed] at h
    cases ce <;> cases de <;> simp [minigo, calc_gaussian, gState0, splitExt, cgExt, hl, h, wParsed, State.get, lookup]

/-- non-vacuity: `"1,,x,2"` — the empty item is skipped, the third does not parse; `",0.5,2"` gives two weights -/
example : collect ⟨fun k => k == 1, fun k => k == 2⟩ 0 4 [] = none ∧
    collect ⟨fun k => k == 0, fun _ => false⟩ 0 3 [] = some [1, 2] := by decide

end F1.Props.Refine
