/- C08 / C05 — the top of a command (`F1.execute`, pkg/f1/f1.go), the goroutine that turns signals into a cancellation
(`newSignalContext`), and the small goroutines the pools and the pool manager start (`TriggerPool.Start`'s stopper,
`ContinuousPool.Start`'s watcher, `PoolManager.WaitForCompletion`), regenerated. -/
import F1Verif.Props.RefineBase

namespace F1.Props.Refine
open F1.MiniGo F1.Generated.MG

/-- `buildErr`: the root command cannot be built; `cmdErr`: the command returns an error; `profErr`: stopping the profiles
fails. `errors.Join` is nil exactly when all its arguments are. -/
def execExt (buildErr cmdErr profErr : Bool) : Ext Rat := fun f _ args =>
  if f = "buildRootCmd" then (match args with
    | .int 0 :: _ => .ref 1
    | _ => if buildErr then .nonNil else .nil)
  else if f = "newSignalContext" then .ref 2
  else if f = "rootCmd.ExecuteContext" then (if cmdErr then .nonNil else .nil)
  else if f = "recv.profiling.stop" then (if profErr then .nonNil else .nil)
  else if f = "errors.Join" then (if args.all (· == .nil) then .nil else .nonNil)
  else .nil

def execState (nargs : Nat) : State Rat :=
  ⟨[("recv.scenarios", .ref 10), ("recv.settings", .ref 11), ("recv.profiling", .ref 12), ("recv.options.output", .ref 13),
    ("recv.options.staticMetrics", .ref 14), ("arg0", .nonNil)], [], [], [], [("arg0", List.replicate nargs [("", Val.nonNil)])]⟩

/-- **the regenerated `F1.execute`** (C08: the exit status is the verdict; D20: profiling). When the root command cannot be
built an error is returned at once — no signal context, no command, no profile stop. Otherwise the arguments are handed to
the command only if there are any, the command runs once under the signal context, **the profiles are stopped exactly once,
after the command, whether or not it failed**, the result is an error exactly when the command or the stop returned one, and
the signal goroutine's stop channel is closed on the way out -/
theorem f1_execute_refines (buildErr cmdErr profErr : Bool) (nargs : Nat) :
    observeC (runFn (execExt buildErr cmdErr profErr) 0 f1_execute (execState nargs)) []
        ["buildRootCmd", "newSignalContext", "rootCmd.ExecuteContext", "recv.profiling.stop"] =
      some ([if buildErr ∨ cmdErr ∨ profErr then .nonNil else .nil], [],
        if buildErr then [1, 0, 0, 0] else [1, 1, 1, 1]) ∧
    traceOf (runFn (execExt buildErr cmdErr profErr) 0 f1_execute (execState nargs)) =
      if buildErr then [] else (if 0 < nargs then ["rootCmd.SetArgs(…)"] else []) ++ ["close(…)"] := by
  cases buildErr <;> cases cmdErr <;> cases profErr <;> by_cases hn : 0 < nargs <;>
    simp [minigo, f1_execute, execState, execExt, hn] <;> omega

def ctxExt : Ext Rat := fun f _ args =>
  if f = "context.WithCancel" then (match args with | .int 0 :: _ => .ref 1 | _ => .ref 2) else .nil

/-- `newSignalContext`: a cancellable context is returned; interrupt and SIGTERM are routed to a channel; one goroutine -/
theorem f1_newSignalContext_refines :
    traceOf (runFn ctxExt 0
        f1_newSignalContext (State.ofVars [("arg0", .ref 0), ("os.Interrupt", .ref 5), ("syscall.SIGTERM", .ref 6)])) =
      ["signal.Notify(…)", "go func"] ∧
    observe (runFn ctxExt 0
        f1_newSignalContext (State.ofVars [("arg0", .ref 0), ("os.Interrupt", .ref 5), ("syscall.SIGTERM", .ref 6)]))
        ["$arg.signal.Notify.1", "$arg.signal.Notify.2"] = some ([.ref 1], [some (.ref 5), some (.ref 6)]) := by
  simp [minigo, f1_newSignalContext, ctxExt]

def sigExt (c0 c1 : Nat) : Ext Rat := fun f _ _ =>
  if f = "$select0" then .int c0 else if f = "$select1" then .int c1 else .nil

/-- what the signal goroutine does: case 0 = a signal arrived, case 1 = the command is over (`stopCh` closed) -/
def sigSpec (c0 c1 : Nat) : List String :=
  "select{c | arg0}" :: (if c0 = 0 then
    ["receive c", "cancel", "select{c | arg0}"] ++ (if c1 = 0 then ["receive c", "signal.Reset", "os.Exit(…)"] else ["receive arg0"])
  else ["receive arg0"])

/-- **the regenerated signal goroutine** (C05: an interrupt is a cancellation, not an exit): the first signal cancels the
command's context — once — and the goroutine goes on listening; only a *second* signal exits the process; when the command is
over the goroutine leaves (both waits offer `stopCh`), so none remains -/
theorem f1_signalLoop_refines (c0 c1 : Nat) (h0 : c0 < 2) (h1 : c1 < 2) :
    traceOf (runFn (sigExt c0 c1) 0 f1_signalLoop_body (State.ofVars [("arg0", .ref 0)])) = sigSpec c0 c1 ∧
    ("os.Exit(…)" ∈ sigSpec c0 c1 ↔ c0 = 0 ∧ c1 = 0) ∧ (sigSpec c0 c1).count "cancel" ≤ 1 := by
  obtain rfl | rfl : c0 = 0 ∨ c0 = 1 := by omega
  all_goals obtain rfl | rfl : c1 = 0 ∨ c1 = 1 := by omega
  all_goals simp [minigo, f1_signalLoop_body, sigExt, sigSpec]

/-- the trigger pool's stopper goroutine (D22): waits for the pool's context, stops the pool — which reports what was
pending as dropped — and only then takes itself off the manager's wait group -/
theorem pool_stopper_refines :
    traceOf (runFn (sigExt 0 0) 0 pool_stopper_body (State.ofVars [])) =
      ["receive workerCtx.Done()", "recv.stop", "recv.manager.runningWorkers.Done"] := by
  simp [minigo, pool_stopper_body]

/-- the users pool's watcher goroutine (D24): raises the stop flag once the pool's context has ended -/
theorem cpool_watcher_refines :
    traceOf (runFn (sigExt 0 0) 0 cpool_watcher_body (State.ofVars [("recv.stopWorkers", .bool false)])) =
      ["receive workerCtx.Done()"] ∧
    observe (runFn (sigExt 0 0) 0 cpool_watcher_body (State.ofVars [("recv.stopWorkers", .bool false)])) ["recv.stopWorkers"] =
      some ([], [some (.bool true)]) := by
  simp [minigo, cpool_watcher_body]

/-- `PoolManager.WaitForCompletion` (C06k, C16k): every call makes a new channel and a new goroutine that waits for the
workers registered *then and later* and closes that channel last — nothing is remembered between calls -/
theorem manager_WaitForCompletion_refines :
    traceOf (runFn (sigExt 0 0) 0 manager_WaitForCompletion (State.ofVars [])) = ["go func"] ∧
    observe (runFn (sigExt 0 0) 0 manager_WaitForCompletion (State.ofVars [])) [] = some ([.nonNil], []) ∧
    traceOf (runFn (sigExt 0 0) 0 manager_waiter_body (State.ofVars [("done", .ref 1)])) =
      ["recv.runningWorkers.Wait", "close(…)"] := by
  simp [minigo, manager_WaitForCompletion, manager_waiter_body]

end F1.Props.Refine
