/-
C04 — regenerated facts: the anchored functions still read as the model of C04 assumes.
`Generated.*` is rewritten from /repo's working tree on every run; `Expected.*` is what the model was written against.
-/
import F1Verif.Generated.Facts
import F1Verif.Expected
namespace F1.Props.FactsC04

-- (jobCounter_take: re-proved semantically on the regenerated MiniGo programs, see Props/Refine*.lean)

theorem fact_pool_Start : F1.Generated.skel_pool_Start = F1.Expected.skel_pool_Start := by rfl
theorem fact_pool_run : F1.Generated.skel_pool_run = F1.Expected.skel_pool_run := by rfl
theorem fact_pool_waitForNewJobs : F1.Generated.skel_pool_waitForNewJobs = F1.Expected.skel_pool_waitForNewJobs := by rfl
theorem fact_cpool_Start : F1.Generated.skel_cpool_Start = F1.Expected.skel_cpool_Start := by rfl
theorem fact_cpool_startWorker : F1.Generated.skel_cpool_startWorker = F1.Expected.skel_cpool_startWorker := by rfl
theorem fact_manager_makeIterationStatePool : F1.Generated.skel_manager_makeIterationStatePool = F1.Expected.skel_manager_makeIterationStatePool := by rfl
theorem fact_manager_NewTriggerPool : F1.Generated.skel_manager_NewTriggerPool = F1.Expected.skel_manager_NewTriggerPool := by rfl
theorem fact_manager_NewContinuousPool : F1.Generated.skel_manager_NewContinuousPool = F1.Expected.skel_manager_NewContinuousPool := by rfl
theorem fact_pool_new : F1.Generated.skel_pool_new = F1.Expected.skel_pool_new := by rfl
theorem fact_cpool_new : F1.Generated.skel_cpool_new = F1.Expected.skel_cpool_new := by rfl
theorem fact_users_NewWorker : F1.Generated.skel_users_NewWorker = F1.Expected.skel_users_NewWorker := by rfl
theorem fact_active_newIterationState : F1.Generated.skel_active_newIterationState = F1.Expected.skel_active_newIterationState := by rfl
theorem fact_f1_CombineScenarios : F1.Generated.skel_f1_CombineScenarios = F1.Expected.skel_f1_CombineScenarios := by rfl
theorem fact_api_NewIterationWorker : F1.Generated.skel_api_NewIterationWorker = F1.Expected.skel_api_NewIterationWorker := by rfl

end F1.Props.FactsC04
