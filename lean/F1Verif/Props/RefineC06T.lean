/- C06 / C07 — the regenerated `T.teardown`, `T.Cleanup`, `handlePanic` and `CheckResults` (pkg/f1/testing/t.go),
executed by the MiniGo semantics. `teardown` calls every registered cleanup exactly once, last registered first, each in
its own block whose deferred `CheckResults` recovers — so a cleanup that panics does not keep the earlier-registered
ones from running (induction over the stack). `handlePanic` marks the handle failed for every recovered value except
`nil` (no panic) and the one sentinel value `FailNow` panics with — compared by identity, not by `errors.Is`. -/
import F1Verif.Props.RefineBase

namespace F1.Props.Refine
open F1.MiniGo F1.Generated.MG

section teardown
variable {F : Type} [FloatLike F]

abbrev TRec (F : Type) := List (String × Val F)

def tdLoop : Stmt :=
  (.while (.bin .ge (.var "i") (.int 0))
  (.seq (.scope (.seq (.deferRecover "CheckResults")
  (.callS [] "$dyn" "$dyn.panics" [(.index "recv.teardownStack" (.var "i") "")])))
  (.assign "i" (.bin .sub (.var "i") (.int 1)))))

def tdState (stack : List (Val F)) (tearing : Val F) (i : Int) (j : Nat) (log : List (TRec F)) (tr df : List String) : State F :=
  ⟨[("recv.tearingDown", tearing), ("i", .int i)], [("$dyn", j)], tr, df,
   [("recv.teardownStack", stack.map fun c => [("", c)]), ("$dyn", log)]⟩

/-- the effects of running the cleanups `rev` (in that order), newest first: each block fires its deferred
`CheckResults`; a panic is recovered there -/
def tdTrace (ext : Ext F) : List (Val F) → Nat → List String → List String
  | [], _, tr => tr
  | c :: r, j, tr =>
    tdTrace ext r (j + 1)
      ((if isTrue (ext "$dyn.panics" j [c]) = true then ["<recovered>"] else []) ++ "<recover>" :: "CheckResults" :: tr)

theorem tdLoop_spec (ext : Ext F) (tearing : Val F) (df : List String) : ∀ (rev post : List (Val F)) (j : Nat) (log : List (TRec F))
    (tr : List String) (fuel : Nat), rev.length + 1 ≤ fuel →
    exec ext fuel tdLoop (tdState (rev.reverse ++ post) tearing ((rev.length : Int) - 1) j log tr df) =
      .normal (tdState (rev.reverse ++ post) tearing (-1) (j + rev.length) (log ++ rev.map fun c => [("0", c)])
        (tdTrace ext rev j tr) df)
  | [], post, j, log, tr, fuel, hf => by
    obtain ⟨f, rfl⟩ : ∃ f, fuel = f + 1 := ⟨fuel - 1, by simp at hf; omega⟩
    simp [minigo, tdLoop, tdState, tdTrace]
  | c :: r, post, j, log, tr, fuel, hf => by
    obtain ⟨f, rfl⟩ : ∃ f, fuel = f + 1 := ⟨fuel - 1, by simp at hf; omega⟩
    have hidx : (List.map (fun c : Val F => [("", c)]) r.reverse ++ [("", c)] :: List.map (fun c => [("", c)]) post)[r.length]? =
        some [("", c)] := by
      rw [List.getElem?_append_right (by simp)]
      simp
    have h0 : (0 : Int) ≤ (r.length : Int) + 1 - 1 := by omega
    have h1 : ¬ ((r.length : Int) + 1 - 1 < 0) := by omega
    have h2 : ((r.length : Int) + 1 - 1).toNat = r.length := by omega
    have h3 : ¬ ((r.length : Int) < 0) := by omega
    by_cases hp : isTrue (ext "$dyn.panics" j [c]) = true
    · have ih := tdLoop_spec ext tearing df r (c :: post) (j + 1) (log ++ [[("0", c)]])
        ("<recovered>" :: "<recover>" :: "CheckResults" :: tr) f (by simp at hf ⊢; omega)
      simp [tdLoop, tdState] at ih
      simp [minigo, tdLoop, tdState, tdTrace, h0, h1, h2, h3, hidx, hp]
      rw [ih]
      simp [Nat.add_assoc, Nat.add_comm 1]
    · have ih := tdLoop_spec ext tearing df r (c :: post) (j + 1) (log ++ [[("0", c)]])
        ("<recover>" :: "CheckResults" :: tr) f (by simp at hf ⊢; omega)
      simp [tdLoop, tdState] at ih
      simp [minigo, tdLoop, tdState, tdTrace, h0, h1, h2, h3, hidx, hp]
      rw [ih]
      simp [Nat.add_assoc, Nat.add_comm 1]

/-- **the regenerated `T.teardown`**: the handle is marked as tearing down, then every registered cleanup is called exactly
once, the last registered first — whatever any of them does: the calls made do not depend on the panic oracle at all -/
theorem t_teardown_refines (ext : Ext F) (stack : List (Val F)) (tearing i0 : Val F) (j : Nat) (log : List (TRec F))
    (tr df : List String) (fuel : Nat) (hf : stack.length + 1 ≤ fuel) :
    exec ext fuel t_teardown ⟨[("recv.tearingDown", tearing), ("i", i0)], [("$dyn", j)], tr, df,
        [("recv.teardownStack", stack.map fun c => [("", c)]), ("$dyn", log)]⟩ =
      .normal (tdState stack (.bool true) (-1) (j + stack.length) (log ++ stack.reverse.map fun c => [("0", c)])
        (tdTrace ext stack.reverse j tr) df) := by
  have h := tdLoop_spec ext (.bool true) df stack.reverse [] j log tr fuel (by simpa using hf)
  simp [tdLoop, tdState] at h
  simp [minigo, t_teardown, tdState, h]

/-- every cleanup leaves its block's deferred `CheckResults` among the effects: one per cleanup, panicking or not -/
theorem tdTrace_count (ext : Ext F) : ∀ (rev : List (Val F)) (j : Nat) (tr : List String),
    (tdTrace ext rev j tr).count "CheckResults" = rev.length + tr.count "CheckResults"
  | [], _, _ => by simp [tdTrace]
  | c :: r, j, tr => by
    simp only [tdTrace]
    rw [tdTrace_count ext r (j + 1)]
    split <;> simp [List.count_cons] <;> omega

/-- **the regenerated `T.Cleanup`** pushes the function on the stack (so registration order is stack order) -/
theorem t_Cleanup_refines (ext : Ext F) (stack : List (Val F)) (f sv : Val F) (fuel : Nat) :
    exec ext fuel t_Cleanup ⟨[("arg0", f), ("recv.teardownStack", sv)], [], [], [],
        [("recv.teardownStack", stack.map fun c => [("", c)])]⟩ =
      .normal ⟨[("arg0", f), ("recv.teardownStack", .nonNil)], [], [], [],
        [("recv.teardownStack", (stack ++ [f]).map fun c => [("", c)])]⟩ := by
  simp [minigo, t_Cleanup]

/-! #### the panic handler -/

/-- the type assertion `recovered.(error)` is an external: it yields the value itself and whether it is an error -/
def panicExt (isError : Bool) : Ext F := fun f _ args =>
  if f = "assert.error" then (match args with | [.int 0, v] => v | _ => .bool isError) else .nonNil

def panicState (recovered : Val F) (sentinel : Nat) (l : List (Val F)) : State F :=
  ⟨[("arg0.Iteration", .nonNil), ("arg1", recovered), ("errFailNow", .ref sentinel), ("err", l.getD 0 .nil),
    ("isError", l.getD 1 .nil), ("stack", l.getD 2 .nil)], [], [], [], []⟩

/-- **the regenerated `handlePanic`** (C07): nothing recovered — nothing happens; the recovered value is an error and is
*the* sentinel `FailNow` panics with (the same value, not merely one that matches it) — the handle is marked failed
(`FailNow` may have been called on *another* handle, D25) and nothing is logged; anything else — any other error, any
non-error value — is logged and marks the handle failed. So: the handle is marked for every recovered value. -/
theorem t_handlePanic_refines (recovered : Option Nat) (isError : Bool) (sentinel : Nat) (l : List (Val F)) (fuel : Nat) :
    traceOf (runFn (panicExt isError) fuel t_handlePanic (panicState (optRef recovered) sentinel l)) =
      match recovered with
      | none => []
      | some r => if isError = true ∧ r = sentinel then ["arg0.Fail"] else ["arg0.logger.Error(…)", "arg0.Fail"] := by
  cases recovered with
  | none => simp [minigo, t_handlePanic, panicState]
  | some r =>
    cases isError <;> by_cases h : r = sentinel <;>
      simp [minigo, t_handlePanic, panicState, panicExt, h]

/-- **the regenerated `CheckResults`** hands whatever `recover()` returns to `handlePanic`, with the same handle -/
theorem t_CheckResults_refines (ext : Ext F) (t : Val F) (fuel : Nat) :
    (match runFn ext fuel t_CheckResults ⟨[("arg0", t), ("arg1", .nil)], [], [], [], []⟩ with
     | .ok (_, s) => lookup "handlePanic" s.arrs = some [[("0", t), ("1", ext "recover" 0 [])]] ∧ s.ncalls "recover" = 1
     | .error _ => False) := by
  simp [minigo, t_CheckResults]

end teardown

/-! #### `Stats.Record` (C01): which accumulator an outcome goes to -/

def recordState (tag : Int) (ns : Int) (dropped : Int) : State Rat :=
  ⟨[("arg0", .int tag), ("arg1", .int ns), ("metrics.SuccessResult", .int 0), ("metrics.FailedResult", .int 1),
    ("metrics.DroppedResult", .int 2), ("metrics.UnknownResult", .int 3), ("recv.droppedIterationCount", .int dropped),
    ("$tag", .nil)], [], [], [], []⟩

/-- **the regenerated `Stats.Record`**: a success goes to the success accumulator only, a failure to the failure
accumulator only, a drop adds exactly one to the dropped counter, anything else changes nothing -/
theorem stats_Record_refines (tag ns dropped : Int) (fuel : Nat) :
    traceOf (runFn noExt fuel stats_Record (recordState tag ns dropped)) =
      (if tag = 0 then ["recv.successfulIterationDurations.Record(…)"]
       else if tag = 1 then ["recv.failedIterationDurations.Record(…)"] else []) ∧
    observe (runFn noExt fuel stats_Record (recordState tag ns dropped)) ["recv.droppedIterationCount"] =
      some ([], [some (.int (if tag = 2 then dropped + 1 else dropped))]) := by
  by_cases h0 : tag = 0
  · subst h0; simp [minigo, stats_Record, recordState]
  by_cases h1 : tag = 1
  · subst h1; simp [minigo, stats_Record, recordState]
  by_cases h2 : tag = 2
  · subst h2; simp [minigo, stats_Record, recordState]
  by_cases h3 : tag = 3
  · subst h3; simp [minigo, stats_Record, recordState]
  simp [minigo, stats_Record, recordState, h0, h1, h2, h3]

/-- **the regenerated `metrics.Result`**: the label an outcome is recorded under — failed iff the handle was failed -/
theorem metrics_Result_refines (failed : Bool) (fuel : Nat) :
    observe (runFn noExt fuel metrics_Result (State.ofVars [("arg0", .bool failed), ("FailedResult", .int 1), ("SuccessResult", .int 0)])) [] =
      some ([.int (if failed then 1 else 0)], []) := by
  cases failed <;> simp [minigo, metrics_Result]

/-- **the regenerated `Stats.Snapshot` / `Total`**: the success figures come from the success accumulator, the failure
figures from the failure accumulator, the dropped count from the dropped counter -/
theorem stats_Snapshot_refines (ext : Ext Rat) (period : Int) (dropped : Int) (l : List (Val Rat)) (fuel : Nat) :
    observe (runFn ext fuel stats_Snapshot ⟨[("arg0", .int period), ("recv.successfulIterationDurations", .ref 1),
        ("recv.failedIterationDurations", .ref 2), ("recv.droppedIterationCount", .int dropped),
        ("recentSufessfull", l.getD 0 .nil), ("lifetimeSuccessful", l.getD 1 .nil), ("lifetimeFailed", l.getD 2 .nil)], [], [], [], []⟩)
      ["$ret.Period", "$ret.DroppedIterationCount", "$ret.SuccessfulIterationDurationsForPeriod",
       "$ret.SuccessfulIterationDurations", "$ret.FailedIterationDurations"] =
    some ([], [some (.int period), some (.int dropped), some (ext "CollectLifetime" 0 [.int 0, .ref 1]),
      some (ext "CollectLifetime" 0 [.int 1, .ref 1]), some (ext "CollectLifetime" 1 [.int 1, .ref 2])]) := by
  simp [minigo, stats_Snapshot]

theorem stats_Total_refines (ext : Ext Rat) (dropped : Int) (l : List (Val Rat)) (fuel : Nat) :
    observe (runFn ext fuel stats_Total ⟨[("recv.successfulIterationDurations", .ref 1),
        ("recv.failedIterationDurations", .ref 2), ("recv.droppedIterationCount", .int dropped),
        ("lifetimeSuccessful", l.getD 0 .nil), ("lifetimeFailed", l.getD 1 .nil)], [], [], [], []⟩)
      ["$ret.DroppedIterationCount", "$ret.SuccessfulIterationDurations", "$ret.FailedIterationDurations"] =
    some ([], [some (.int dropped), some (ext "CollectLifetime" 0 [.int 1, .ref 1]), some (ext "CollectLifetime" 1 [.int 1, .ref 2])]) := by
  simp [minigo, stats_Total]

end F1.Props.Refine
