/-
C08 — property theorems. Nothing but statements about `F1.Verdict` and their proofs.
-/
import F1Verif.Model.Verdict
import Mathlib.Tactic.Linarith
import Mathlib.Tactic.FieldSimp
import Mathlib.Data.Rat.Defs
import Mathlib.Algebra.Order.Field.Basic

namespace F1.Props.C08
open F1.Verdict

/-- The implemented predicate is the documented one, for every count triple, error flag and
option combination; in particular it is total (zero iterations included). -/
theorem C08_verdict (e : Bool) (o : Opts) (c : Counts) :
    failedImpl e o c = true ↔ FailedSpec e o c := by
  unfold failedImpl FailedSpec Counts.iterations
  simp only [Bool.or_eq_true, Bool.and_eq_true, decide_eq_true_eq, Bool.not_eq_true']
  constructor
  · rintro ((((h | h) | h) | h) | h)
    · exact Or.inl h
    · exact Or.inr (Or.inl h)
    · exact Or.inr (Or.inr (Or.inl ⟨h.1.1, h.1.2, h.2⟩))
    · exact Or.inr (Or.inr (Or.inr (Or.inl h)))
    · refine Or.inr (Or.inr (Or.inr (Or.inr ⟨h.1, ?_, h.2⟩)))
      -- a positive rate and `failed*100 > rate*iters` force `iters > 0` or `failed > 0`
      rcases Nat.eq_zero_or_pos (c.failed + c.succ + c.dropped) with h0 | h0
      · have hf : c.failed = 0 := by omega
        have := h.2
        rw [h0, hf] at this
        simp at this
      · exact h0
  · rintro (h | h | h | h | h)
    · exact Or.inl (Or.inl (Or.inl (Or.inl h)))
    · exact Or.inl (Or.inl (Or.inl (Or.inr h)))
    · exact Or.inl (Or.inl (Or.inr ⟨⟨h.1, h.2.1⟩, h.2.2⟩))
    · exact Or.inl (Or.inr h)
    · exact Or.inr ⟨h.1, h.2.2⟩

theorem C08_total (e : Bool) (o : Opts) (c : Counts) : verdictImpl e o c ≠ .crash := by
  unfold verdictImpl; split <;> simp

theorem C08_verdict_fail (e : Bool) (o : Opts) (c : Counts) :
    verdictImpl e o c = .fail ↔ FailedSpec e o c := by
  rw [← C08_verdict]; unfold verdictImpl; split <;> simp_all

/-- the cross-multiplied comparison is the share statement over ℚ:
`failed / iterations * 100 > rate`, whenever at least one iteration exists. -/
theorem C08_share (failed iters : Nat) (rate : Int) (hi : 0 < iters) :
    ((failed : Int) * 100 > rate * (iters : Int)) ↔
      ((failed : ℚ) / (iters : ℚ) * 100 > (rate : ℚ)) := by
  have hq : (0 : ℚ) < (iters : ℚ) := by exact_mod_cast hi
  rw [gt_iff_lt, gt_iff_lt, div_mul_eq_mul_div, lt_div_iff₀ hq]
  constructor
  · intro h; exact_mod_cast h
  · intro h; exact_mod_cast h

/-- no failed iterations ⇒ the tolerance clauses never fire (zero-iteration runs included) -/
theorem C08_no_failures_pass (o : Opts) (c : Counts) (hf : c.failed = 0)
    (hd : o.ignoreDropped = true ∨ c.dropped = 0) (hr : 0 ≤ o.maxFailuresRate) :
    verdictImpl false o c = .pass := by
  have : ¬ FailedSpec false o c := by
    unfold FailedSpec
    rintro (h | h | h | h | h)
    · simp at h
    · rcases hd with hd | hd
      · rw [hd] at h; simp at h
      · omega
    · omega
    · omega
    · have h3 := h.2.2
      rw [hf] at h3
      have : (0:Int) ≤ o.maxFailuresRate * (c.iterations : Int) :=
        Int.mul_nonneg hr (Int.natCast_nonneg _)
      omega
  unfold verdictImpl
  split
  · rename_i h; exact absurd ((C08_verdict _ _ _).mp h) this
  · rfl

/-- the CLI returns an error exactly when the run is reported failed -/
theorem C08_cli (e : Bool) (o : Opts) (c : Counts) :
    cliError e (failedImpl e o c) = true ↔ FailedSpec e o c := by
  rw [← C08_verdict]
  unfold cliError failedImpl
  cases e <;> simp

-- non-vacuity: concrete runs on both sides of each threshold
example : FailedSpec false ⟨false, 0, 5⟩ ⟨16, 1, 0⟩ := by decide
example : ¬ FailedSpec false ⟨false, 0, 5⟩ ⟨19, 1, 0⟩ := by decide
example : ¬ FailedSpec false ⟨false, 0, 5⟩ ⟨0, 0, 0⟩ := by decide
example : FailedSpec false ⟨false, 3, 50⟩ ⟨10, 4, 0⟩ := by decide
example : ¬ FailedSpec false ⟨true, 3, 50⟩ ⟨10, 3, 7⟩ := by decide

end F1.Props.C08
