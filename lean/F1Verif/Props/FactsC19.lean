/-
C19 — regenerated facts: the anchored functions still read as the model of C19 assumes.
`Generated.*` is rewritten from /repo's working tree on every run; `Expected.*` is what the model was written against.
-/
import F1Verif.Generated.Facts
import F1Verif.Expected
namespace F1.Props.FactsC19

theorem fact_log_IterationStatsGroup : F1.Generated.skel_log_IterationStatsGroup = F1.Expected.skel_log_IterationStatsGroup := by rfl
theorem fact_result_Summary : F1.Generated.skel_result_Summary = F1.Expected.skel_result_Summary := by rfl
theorem fact_tmpl_result : F1.Generated.tmpl_result = F1.Expected.tmpl_result := by rfl
theorem fact_tmpl_progress : F1.Generated.tmpl_progress = F1.Expected.tmpl_progress := by rfl

end F1.Props.FactsC19
