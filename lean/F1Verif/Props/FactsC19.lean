/-
C19 — regenerated facts: the anchored functions still read as the model of C19 assumes.
`Generated.*` is rewritten from /repo's working tree on every run; `Expected.*` is what the model was written against.
-/
import F1Verif.Generated.Facts
import F1Verif.Expected
namespace F1.Props.FactsC19

theorem fact_log_IterationStatsGroup : F1.Generated.skel_log_IterationStatsGroup = F1.Expected.skel_log_IterationStatsGroup := by rfl
theorem fact_result_Summary : F1.Generated.skel_result_Summary = F1.Expected.skel_result_Summary := by rfl
theorem fact_result_Progress : F1.Generated.skel_result_Progress = F1.Expected.skel_result_Progress := by rfl
theorem fact_views_ResultLog : F1.Generated.skel_views_ResultLog = F1.Expected.skel_views_ResultLog := by rfl
theorem fact_views_Result : F1.Generated.skel_views_Result = F1.Expected.skel_views_Result := by rfl
theorem fact_views_ProgressLog : F1.Generated.skel_views_ProgressLog = F1.Expected.skel_views_ProgressLog := by rfl
theorem fact_views_Progress : F1.Generated.skel_views_Progress = F1.Expected.skel_views_Progress := by rfl
theorem fact_views_render : F1.Generated.skel_views_render = F1.Expected.skel_views_render := by rfl
theorem fact_snapshot_Iterations : F1.Generated.skel_snapshot_Iterations = F1.Expected.skel_snapshot_Iterations := by rfl
theorem fact_snapshot_IterationsStarted : F1.Generated.skel_snapshot_IterationsStarted = F1.Expected.skel_snapshot_IterationsStarted := by rfl
theorem fact_tmpl_result : F1.Generated.tmpl_result = F1.Expected.tmpl_result := by rfl
theorem fact_tmpl_progress : F1.Generated.tmpl_progress = F1.Expected.tmpl_progress := by rfl

end F1.Props.FactsC19
