/- C18 / C05 — the goroutine of the periodic runner (`Runner.Start`, internal/raterun/runner.go), regenerated: an endless
loop around one `select`. Which case the runtime picks in round `k` is the oracle `$select0` (its `k`-th answer); the theorems
hold for every such script. They say what one round does for each choice, that the function is invoked in a round only after
that round received a tick of the ticker, that the loop is left only through the cancellation case — after which the timers
are stopped and nothing else happens — and that closing `stopped` (what `Stop` waits for) is the goroutine's last act. -/
import F1Verif.Props.RefineBase
import F1Verif.Props.RefineC02W

namespace F1.Props.Refine
open F1.MiniGo F1.Generated.MG

/-- what the runtime does to the runner: the case picked in round `k`, and the frequency the schedules report at the `j`-th
dispatch -/
structure RunnerScript where
  choice : Nat → Nat
  freq   : Nat → Int

def runnerExt (R : RunnerScript) : Ext Rat := fun f k _ =>
  if f = "$select0" then .int (R.choice k)
  else if f = "recv.schedules.currentFrequency" then .int (R.freq k)
  else if f = "context.WithCancel" then .ref 1
  else .nil

def rlOffer : String :=
  "select{recv.restart | recv.schedules.timeUntilNextSchedule() | recv.schedules.currentScheduleTicker() | schedulesCtx.Done()}"
def rlTick : String := "receive recv.schedules.currentScheduleTicker()"
def rlInvoke : String := "recv.runFunction(…)"
def rlDone : String := "receive schedulesCtx.Done()"

/-- the loop of the goroutine, as generated (the refinement theorem below unfolds the generated definition and must find
exactly this) -/
def rlLoop : Stmt :=
  (.while (.bool true)
  (.seq (.effect "select{recv.restart | recv.schedules.timeUntilNextSchedule() | recv.schedules.currentScheduleTicker() | schedulesCtx.Done()}")
  (.seq (.callS ["$select0"] "$select0" "" [])
  (.ite (.bin .eq (.var "$select0") (.int 0))
  (.seq (.effect "receive recv.restart")
  (.effect "recv.schedules.startFirst"))
  (.ite (.bin .eq (.var "$select0") (.int 1))
  (.seq (.effect "receive recv.schedules.timeUntilNextSchedule()")
  (.effect "recv.schedules.startNext"))
  (.ite (.bin .eq (.var "$select0") (.int 2))
  (.seq (.effect "receive recv.schedules.currentScheduleTicker()")
  (.seq (.effect "hook raterun.dispatch")
  (.seq (.assign "$arg.recv.runFunction.0" (.call0 "recv.schedules.currentFrequency"))
  (.effect "recv.runFunction(…)"))))
  (.ite (.bin .eq (.var "$select0") (.int 3))
  (.seq (.effect "receive schedulesCtx.Done()")
  (.seq (.effect "recv.schedules.stop")
  .ret0))
  (.unsupported "select: no such case"))))))))

/-- the effects of the loop from round `k` (`j` dispatches so far), oldest first; `none` when it does not end within `fuel`
rounds (or the script names a case the select does not have) -/
def runnerRounds (R : RunnerScript) : Nat → Nat → Nat → Option (List String)
  | 0, _, _ => none
  | f + 1, k, j =>
    match R.choice k with
    | 0 => (runnerRounds R f (k + 1) j).map ([rlOffer, "receive recv.restart", "recv.schedules.startFirst"] ++ ·)
    | 1 => (runnerRounds R f (k + 1) j).map
        ([rlOffer, "receive recv.schedules.timeUntilNextSchedule()", "recv.schedules.startNext"] ++ ·)
    | 2 => (runnerRounds R f (k + 1) (j + 1)).map ([rlOffer, rlTick, "hook raterun.dispatch", rlInvoke] ++ ·)
    | 3 => some [rlOffer, rlDone, "recv.schedules.stop"]
    | _ => none

def rlState (stopped sel a0 : Val Rat) (k j : Nat) (log : List (List (String × Val Rat))) (tr df : List String) : State Rat :=
  ⟨[("recv.stopped", stopped), ("$select0", sel), ("$arg.recv.runFunction.0", a0)],
   [("$select0", k), ("recv.schedules.currentFrequency", j)], tr, df, [("$select0", log)]⟩

theorem rlLoop_spec (R : RunnerScript) (stopped : Val Rat) (df : List String) :
    ∀ (fuel k j : Nat) (sel a0 : Val Rat) (log : List (List (String × Val Rat))) (tr : List String),
    obsTrace (exec (runnerExt R) fuel rlLoop (rlState stopped sel a0 k j log tr df)) =
      (runnerRounds R fuel k j).map (fun t => (tr.reverse ++ t, df))
  | 0, k, j, sel, a0, log, tr => by simp [minigo, rlLoop, rlState, runnerRounds, obsTrace]
  | f + 1, k, j, sel, a0, log, tr => by
    rcases hc : R.choice k with _ | _ | _ | _ | c
    · have ih := rlLoop_spec R stopped df f (k + 1) j (.int 0) a0 (log ++ [[]])
        ("recv.schedules.startFirst" :: "receive recv.restart" :: rlOffer :: tr)
      simp [rlLoop, rlState, rlOffer] at ih
      simp [minigo, rlLoop, rlState, runnerRounds, runnerExt, hc, rlOffer]
      rw [ih]
      cases runnerRounds R f (k + 1) j <;> simp
    · have ih := rlLoop_spec R stopped df f (k + 1) j (.int 1) a0 (log ++ [[]])
        ("recv.schedules.startNext" :: "receive recv.schedules.timeUntilNextSchedule()" :: rlOffer :: tr)
      simp [rlLoop, rlState, rlOffer] at ih
      simp [minigo, rlLoop, rlState, runnerRounds, runnerExt, hc, rlOffer]
      rw [ih]
      cases runnerRounds R f (k + 1) j <;> simp
    · have ih := rlLoop_spec R stopped df f (k + 1) (j + 1) (.int 2) (.int (R.freq j)) (log ++ [[]])
        (rlInvoke :: "hook raterun.dispatch" :: rlTick :: rlOffer :: tr)
      simp [rlLoop, rlState, rlOffer, rlInvoke, rlTick] at ih
      simp [minigo, rlLoop, rlState, runnerRounds, runnerExt, hc, rlOffer, rlInvoke, rlTick]
      rw [ih]
      cases runnerRounds R f (k + 1) (j + 1) <;> simp
    · simp [minigo, rlLoop, rlState, runnerRounds, runnerExt, hc, rlOffer, rlDone, obsTrace]
    · have h0 : ¬ ((c : Int) + 1 + 1 + 1 + 1 = 0) := by omega
      have h1 : ¬ ((c : Int) + 1 + 1 + 1 + 1 = 1) := by omega
      have h2 : ¬ ((c : Int) + 1 + 1 + 1 + 1 = 2) := by omega
      have h3 : ¬ ((c : Int) + 1 + 1 + 1 + 1 = 3) := by omega
      simp [minigo, rlLoop, rlState, runnerRounds, runnerExt, hc, obsTrace, h0, h1, h2, h3]

/-- **the regenerated goroutine of `Runner.Start`**: the rounds of the loop, then — deferred, so whatever ended the loop —
`close(r.stopped)` as its last act -/
theorem runner_loop_refines (R : RunnerScript) (stopped sel a0 : Val Rat) (k j : Nat) (log : List (List (String × Val Rat)))
    (fuel : Nat) (t : List String) (h : runnerRounds R fuel k j = some t) :
    traceOpt (runFn (runnerExt R) fuel runner_loop_body (rlState stopped sel a0 k j log [] [])) = some (t ++ ["close(…)"]) := by
  have hl := rlLoop_spec R stopped ["close(…)"] fuel k j sel a0 log []
  rw [h] at hl
  simp [rlLoop, rlState] at hl
  have := finish_obsTrace _ _ _ hl
  simp [minigo, runner_loop_body, rlState]
  simpa using this

/-- `Start` itself: a cancellable context is derived from the caller's and its cancel function is what `Stop` will call -/
theorem runner_Start_init_refines (R : RunnerScript) :
    observe (runFn (runnerExt R) 0 runner_loop_init (State.ofVars [("arg0", .ref 0)])) ["recv.cancel", "schedulesCtx"] =
      some ([], [some (.ref 1), some (.ref 1)]) := by
  simp [minigo, runner_loop_init, runnerExt]

/-! what every finished execution of the loop looks like (C18) -/

/-- **C18.** Whatever the runtime chooses: (1) the loop ends with the cancellation case followed by stopping the timers —
after the cancellation has been received nothing is invoked; (2) the cancellation is received exactly once; (3) the function
is invoked exactly as often as a tick of the ticker was received — and each invocation follows its tick in the same round
(`runnerRounds`) -/
theorem runnerRounds_shape (R : RunnerScript) :
    ∀ (fuel k j : Nat) (t : List String), runnerRounds R fuel k j = some t →
      (∃ pre, t = pre ++ [rlOffer, rlDone, "recv.schedules.stop"] ∧ rlDone ∉ pre ∧
        pre.count rlInvoke = pre.count rlTick)
  | 0, k, j, t, h => by simp [runnerRounds] at h
  | f + 1, k, j, t, h => by
    unfold runnerRounds at h
    split at h
    · cases hr : runnerRounds R f (k + 1) j with
      | none => simp [hr] at h
      | some t' =>
        obtain ⟨pre, rfl, hnd, hc⟩ := runnerRounds_shape R f (k + 1) j t' hr
        simp [hr] at h; subst h
        refine ⟨[rlOffer, "receive recv.restart", "recv.schedules.startFirst"] ++ pre, by simp, ?_, ?_⟩
        · simp [rlOffer, rlDone] at hnd ⊢; exact hnd
        · simp [rlOffer, rlInvoke, rlTick] at hc ⊢; exact hc
    · cases hr : runnerRounds R f (k + 1) j with
      | none => simp [hr] at h
      | some t' =>
        obtain ⟨pre, rfl, hnd, hc⟩ := runnerRounds_shape R f (k + 1) j t' hr
        simp [hr] at h; subst h
        refine ⟨[rlOffer, "receive recv.schedules.timeUntilNextSchedule()", "recv.schedules.startNext"] ++ pre, by simp, ?_, ?_⟩
        · simp [rlOffer, rlDone] at hnd ⊢; exact hnd
        · simp [rlOffer, rlInvoke, rlTick] at hc ⊢; exact hc
    · cases hr : runnerRounds R f (k + 1) (j + 1) with
      | none => simp [hr] at h
      | some t' =>
        obtain ⟨pre, rfl, hnd, hc⟩ := runnerRounds_shape R f (k + 1) (j + 1) t' hr
        simp [hr] at h; subst h
        refine ⟨[rlOffer, rlTick, "hook raterun.dispatch", rlInvoke] ++ pre, by simp, ?_, ?_⟩
        · simp [rlOffer, rlDone, rlTick, rlInvoke] at hnd ⊢; exact hnd
        · simp [rlOffer, rlInvoke, rlTick] at hc ⊢; exact hc
    · simp at h; subst h
      exact ⟨[], by simp, by simp, by simp⟩
    · simp at h

/-- non-vacuity: a script — restart, two ticks, next schedule, a tick, cancellation — and its trace -/
example : runnerRounds ⟨fun k => [0, 2, 2, 1, 2, 3].getD k 3, fun j => 100 * j⟩ 10 0 0 =
    some ([rlOffer, "receive recv.restart", "recv.schedules.startFirst"] ++ [rlOffer, rlTick, "hook raterun.dispatch", rlInvoke] ++
      [rlOffer, rlTick, "hook raterun.dispatch", rlInvoke] ++
      [rlOffer, "receive recv.schedules.timeUntilNextSchedule()", "recv.schedules.startNext"] ++
      [rlOffer, rlTick, "hook raterun.dispatch", rlInvoke] ++ [rlOffer, rlDone, "recv.schedules.stop"]) := by
  simp [runnerRounds]

end F1.Props.Refine
