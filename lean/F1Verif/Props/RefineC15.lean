/- C15 / C14 — the regenerated validation functions of the config-file parser (field inheritance from the `default`
section, required fields, the concurrency guards) refine the plan model's `inh` / `req` (see Props/RefineBase.lean for
what a refinement theorem says and assumes) -/
import F1Verif.Props.RefineBase
import F1Verif.Model.Plan

namespace F1.Props.Refine
open F1.MiniGo F1.Generated.MG F1.Plan

section plan
variable {F : Type} [FloatLike F]

def noExtP : Ext F := fun _ _ _ => .nil

/-- what the validation functions look at: which pointer fields of the stage (`recv`) and of the `default` section
(`arg1`) are nil. Values are opaque references (the natural numbers name them), durations and counts integers. -/
structure PStage where
  mode : Option Nat := none
  startRate : Option Nat := none
  endRate : Option Nat := none
  rate : Option Nat := none
  distribution : Option Nat := none
  weights : Option Nat := none
  stages : Option Nat := none
  concurrency : Option Int := none
  jitter : Option Nat := none
  volume : Option Nat := none
  duration : Option Int := none
  iterationFrequency : Option Int := none
  repeat_ : Option Int := none
  peak : Option Int := none
  stddev : Option Int := none
  parameters : Option Nat := none

def stageVars (pfx : String) (s : PStage) : List (String × Val F) :=
  [(pfx ++ ".Mode", optRef s.mode), (pfx ++ ".StartRate", optRef s.startRate), (pfx ++ ".EndRate", optRef s.endRate),
   (pfx ++ ".Rate", optRef s.rate), (pfx ++ ".Distribution", optRef s.distribution), (pfx ++ ".Weights", optRef s.weights),
   (pfx ++ ".Stages", optRef s.stages), (pfx ++ ".Concurrency", optInt s.concurrency), (pfx ++ ".Jitter", optRef s.jitter),
   (pfx ++ ".Volume", optRef s.volume), (pfx ++ ".Duration", optInt s.duration),
   (pfx ++ ".IterationFrequency", optInt s.iterationFrequency), (pfx ++ ".Repeat", optInt s.repeat_),
   (pfx ++ ".Peak", optInt s.peak), (pfx ++ ".StandardDeviation", optInt s.stddev), (pfx ++ ".Parameters", optRef s.parameters)]

def valState (s d : PStage) : State F :=
  State.ofVars ([("recv", .nonNil)] ++ stageVars "recv" s ++ stageVars "arg1" d)

theorem inh_eq_inherit {α} (a b : Option α) : inh a b = inherit a b := rfl

/-- `validateConstantStage`: with a rate and a distribution in the stage or in the default section, the stage comes back
with every field it needs filled in — its own value when it has one, else the default section's -/
theorem file_validateConstantStage_ok (s d : PStage) (h1 : inh s.rate d.rate ≠ none) (h2 : inh s.distribution d.distribution ≠ none) :
    observe (runFn (noExtP (F := F)) 0 file_validateConstantStage (valState s d))
        ["recv.Rate", "recv.Distribution", "recv.Jitter"] =
      some ([.nonNil, .nil], [some (optRef (inh s.rate d.rate)), some (optRef (inh s.distribution d.distribution)),
                               some (optRef (inh s.jitter d.jitter))]) := by
  simp only [inh_eq_inherit] at *
  simp [minigo, file_validateConstantStage, valState, stageVars, h1, h2]

/-- … and without one of them it is refused (nil stage, an error) -/
theorem file_validateConstantStage_err (s d : PStage) (h : inh s.rate d.rate = none ∨ inh s.distribution d.distribution = none) :
    (observe (runFn (noExtP (F := F)) 0 file_validateConstantStage (valState s d)) []).map (·.1) = some [.nil, .nonNil] := by
  simp only [inh_eq_inherit] at *
  rcases h with h | h <;> simp [minigo, file_validateConstantStage, valState, stageVars, h]
  all_goals (split <;> simp_all)

/-- `validateCommonFieldsOfStage`: duration and mode, the stage's own or the default's; refused when neither has one -/
theorem file_validateCommonFieldsOfStage_ok (s d : PStage) (h1 : inh s.duration d.duration ≠ none) (h2 : inh s.mode d.mode ≠ none) :
    observe (runFn (noExtP (F := F)) 0 file_validateCommonFieldsOfStage (valState s d)) ["recv.Duration", "recv.Mode"] =
      some ([.nonNil, .nil], [some (optInt (inh s.duration d.duration)), some (optRef (inh s.mode d.mode))]) := by
  simp only [inh_eq_inherit] at *
  simp [minigo, file_validateCommonFieldsOfStage, valState, stageVars, h1, h2]

theorem file_validateCommonFieldsOfStage_err (s d : PStage) (h : inh s.duration d.duration = none ∨ inh s.mode d.mode = none) :
    (observe (runFn (noExtP (F := F)) 0 file_validateCommonFieldsOfStage (valState s d)) []).map (·.1) = some [.nil, .nonNil] := by
  simp only [inh_eq_inherit] at *
  rcases h with h | h <;> simp [minigo, file_validateCommonFieldsOfStage, valState, stageVars, h]
  all_goals (split <;> simp_all)

/-- `validateRampStage` -/
theorem file_validateRampStage_ok (s d : PStage) (h1 : inh s.startRate d.startRate ≠ none) (h2 : inh s.endRate d.endRate ≠ none)
    (h3 : inh s.distribution d.distribution ≠ none) :
    observe (runFn (noExtP (F := F)) 0 file_validateRampStage (valState s d))
        ["recv.StartRate", "recv.EndRate", "recv.Distribution", "recv.Jitter"] =
      some ([.nonNil, .nil], [some (optRef (inh s.startRate d.startRate)), some (optRef (inh s.endRate d.endRate)),
        some (optRef (inh s.distribution d.distribution)), some (optRef (inh s.jitter d.jitter))]) := by
  simp only [inh_eq_inherit] at *
  simp [minigo, file_validateRampStage, valState, stageVars, h1, h2, h3]

theorem file_validateRampStage_err (s d : PStage)
    (h : inh s.startRate d.startRate = none ∨ inh s.endRate d.endRate = none ∨ inh s.distribution d.distribution = none) :
    (observe (runFn (noExtP (F := F)) 0 file_validateRampStage (valState s d)) []).map (·.1) = some [.nil, .nonNil] := by
  simp only [inh_eq_inherit] at *
  rcases h with h | h | h <;> simp [minigo, file_validateRampStage, valState, stageVars, h]
  all_goals (repeat' split)
  all_goals simp_all

/-- `validateStagedStage` -/
theorem file_validateStagedStage_ok (s d : PStage) (h1 : inh s.stages d.stages ≠ none)
    (h2 : inh s.iterationFrequency d.iterationFrequency ≠ none) (h3 : inh s.distribution d.distribution ≠ none) :
    observe (runFn (noExtP (F := F)) 0 file_validateStagedStage (valState s d))
        ["recv.Stages", "recv.IterationFrequency", "recv.Distribution", "recv.Jitter"] =
      some ([.nonNil, .nil], [some (optRef (inh s.stages d.stages)), some (optInt (inh s.iterationFrequency d.iterationFrequency)),
        some (optRef (inh s.distribution d.distribution)), some (optRef (inh s.jitter d.jitter))]) := by
  simp only [inh_eq_inherit] at *
  simp [minigo, file_validateStagedStage, valState, stageVars, h1, h2, h3]

theorem file_validateStagedStage_err (s d : PStage)
    (h : inh s.stages d.stages = none ∨ inh s.iterationFrequency d.iterationFrequency = none ∨ inh s.distribution d.distribution = none) :
    (observe (runFn (noExtP (F := F)) 0 file_validateStagedStage (valState s d)) []).map (·.1) = some [.nil, .nonNil] := by
  simp only [inh_eq_inherit] at *
  rcases h with h | h | h <;> simp [minigo, file_validateStagedStage, valState, stageVars, h]
  all_goals (repeat' split)
  all_goals simp_all

/-- `validateGaussianStage`: seven required fields -/
theorem file_validateGaussianStage_ok (s d : PStage) (h1 : inh s.volume d.volume ≠ none) (h2 : inh s.repeat_ d.repeat_ ≠ none)
    (h3 : inh s.iterationFrequency d.iterationFrequency ≠ none) (h4 : inh s.peak d.peak ≠ none) (h5 : inh s.weights d.weights ≠ none)
    (h6 : inh s.stddev d.stddev ≠ none) (h7 : inh s.distribution d.distribution ≠ none) :
    observe (runFn (noExtP (F := F)) 0 file_validateGaussianStage (valState s d))
        ["recv.Volume", "recv.Repeat", "recv.IterationFrequency", "recv.Peak", "recv.Weights", "recv.StandardDeviation",
         "recv.Distribution", "recv.Jitter"] =
      some ([.nonNil, .nil], [some (optRef (inh s.volume d.volume)), some (optInt (inh s.repeat_ d.repeat_)),
        some (optInt (inh s.iterationFrequency d.iterationFrequency)), some (optInt (inh s.peak d.peak)),
        some (optRef (inh s.weights d.weights)), some (optInt (inh s.stddev d.stddev)),
        some (optRef (inh s.distribution d.distribution)), some (optRef (inh s.jitter d.jitter))]) := by
  simp only [inh_eq_inherit] at *
  simp [minigo, file_validateGaussianStage, valState, stageVars, h1, h2, h3, h4, h5, h6, h7]

theorem file_validateGaussianStage_err (s d : PStage)
    (h : inh s.volume d.volume = none ∨ inh s.repeat_ d.repeat_ = none ∨ inh s.iterationFrequency d.iterationFrequency = none ∨
      inh s.peak d.peak = none ∨ inh s.weights d.weights = none ∨ inh s.stddev d.stddev = none ∨
      inh s.distribution d.distribution = none) :
    (observe (runFn (noExtP (F := F)) 0 file_validateGaussianStage (valState s d)) []).map (·.1) = some [.nil, .nonNil] := by
  simp only [inh_eq_inherit] at *
  rcases h with h | h | h | h | h | h | h <;> simp [minigo, file_validateGaussianStage, valState, stageVars, h]
  all_goals (repeat' split)
  all_goals simp_all

/-- `validateUsersStage`: a users stage needs a concurrency of at least 1, its own or the default's (D12) -/
theorem file_validateUsersStage_ok (s d : PStage) (c : Int) (h1 : inh s.concurrency d.concurrency = some c) (hc : 1 ≤ c) :
    observe (runFn (noExtP (F := F)) 0 file_validateUsersStage (valState s d)) ["recv.Concurrency"] =
      some ([.nonNil, .nil], [some (.int c)]) := by
  simp only [inh_eq_inherit] at *
  have hn : inherit s.concurrency d.concurrency ≠ none := by rw [h1]; simp
  have hlt : ¬ c < 1 := by omega
  have hv : optInt (F := F) (inherit s.concurrency d.concurrency) = .int c := by rw [h1]; rfl
  simp [minigo, file_validateUsersStage, valState, stageVars, hn, hv, hlt]

theorem file_validateUsersStage_err (s d : PStage)
    (h : inh s.concurrency d.concurrency = none ∨ ∃ c, inh s.concurrency d.concurrency = some c ∧ c < 1) :
    (observe (runFn (noExtP (F := F)) 0 file_validateUsersStage (valState s d)) []).map (·.1) = some [.nil, .nonNil] := by
  simp only [inh_eq_inherit] at *
  rcases h with h | ⟨c, h, hc⟩
  · simp [minigo, file_validateUsersStage, valState, stageVars, h]
  · have hn : inherit s.concurrency d.concurrency ≠ none := by rw [h]; simp
    have hv : optInt (F := F) (inherit s.concurrency d.concurrency) = .int c := by rw [h]; rfl
    simp [minigo, file_validateUsersStage, valState, stageVars, hn, hv, hc]

/-! ### the top-level section: required limits, the concurrency guard, the two defaults that are filled in -/

structure PConfig where
  scenario : Option Nat := none
  maxDuration : Option Int := none
  concurrency : Option Int := none
  maxIterations : Option Int := none
  maxFailures : Option Int := none
  maxFailuresRate : Option Int := none
  ignoreDropped : Option Nat := none
  nStages : Nat := 0
  defConcurrency : Option Int := none
  defJitter : Option Nat := none

def cfgState (c : PConfig) : State F :=
  ⟨[("recv", .nonNil), ("recv.Scenario", optRef c.scenario), ("recv.Limits.MaxDuration", optInt c.maxDuration),
    ("recv.Limits.Concurrency", optInt c.concurrency), ("recv.Limits.MaxIterations", optInt c.maxIterations),
    ("recv.Limits.MaxFailures", optInt c.maxFailures), ("recv.Limits.MaxFailuresRate", optInt c.maxFailuresRate),
    ("recv.Limits.IgnoreDropped", optRef c.ignoreDropped), ("recv.Default.Concurrency", optInt c.defConcurrency),
    ("recv.Default.Jitter", optRef c.defJitter),
    -- the function's locals, pre-declared so that both branches of every `if` leave states of the same shape
    ("maxFailures", .int 0), ("maxFailuresRate", .int 0), ("jitter", .nil)], [], [], [],
   [("recv.Stages", List.replicate c.nStages [])]⟩

/-- `ConfigFile.validateCommonFields` accepts exactly a config with a scenario, a max-duration, a concurrency of at
least 1, a max-iterations, an ignore-dropped and at least one stage; the two failure tolerances default to 0, the
default section's concurrency to the limit's, its jitter to 0 -/
theorem file_validateCommonFields_ok (c : PConfig) (conc : Int) (h1 : c.scenario ≠ none) (h2 : c.maxDuration ≠ none)
    (h3 : c.concurrency = some conc) (hc : 1 ≤ conc) (h4 : c.maxIterations ≠ none) (h5 : c.ignoreDropped ≠ none)
    (h6 : c.nStages ≠ 0) :
    observe (runFn (noExtP (F := F)) 0 file_validateCommonFields (cfgState c))
        ["recv.Limits.MaxFailures", "recv.Limits.MaxFailuresRate", "recv.Default.Concurrency", "recv.Default.Jitter"] =
      some ([.nonNil, .nil], [some (.int (c.maxFailures.getD 0)), some (.int (c.maxFailuresRate.getD 0)),
        some (optInt (inherit c.defConcurrency (some conc))),
        some (match c.defJitter with | some j => .ref j | none => .flt (FloatLike.ofLit 0 (-1)))]) := by
  have hlt : ¬ conc < 1 := by omega
  have hv : optInt (F := F) c.concurrency = .int conc := by rw [h3]; rfl
  have hn : c.concurrency ≠ none := by rw [h3]; simp
  simp [minigo, file_validateCommonFields, cfgState, h1, h2, hn, h4, h5, h6, hv, hlt]
  refine ⟨?_, ?_, ?_, ?_⟩
  · cases c.maxFailures <;> simp [optInt]
  · cases c.maxFailuresRate <;> simp [optInt]
  · cases c.defConcurrency <;> simp [optInt, inherit]
  · cases c.defJitter <;> simp [optRef]

theorem file_validateCommonFields_err (c : PConfig)
    (h : c.scenario = none ∨ c.maxDuration = none ∨ c.concurrency = none ∨ (∃ k, c.concurrency = some k ∧ k < 1) ∨
      c.maxIterations = none ∨ c.ignoreDropped = none ∨ c.nStages = 0) :
    (observe (runFn (noExtP (F := F)) 0 file_validateCommonFields (cfgState c)) []).map (·.1) = some [.nil, .nonNil] := by
  obtain ⟨sc, md, cc, mi, mf, mfr, ign, n, dc, dj⟩ := c
  simp only at h
  cases cc with
  | none =>
    simp [minigo, file_validateCommonFields, cfgState]
    repeat' split
    all_goals simp
  | some k =>
    by_cases hk : k < 1
    · simp [minigo, file_validateCommonFields, cfgState, hk]
      repeat' split
      all_goals simp
    · rcases h with h | h | h | ⟨k', h, hk'⟩ | h | h | h
      · subst h; simp [minigo, file_validateCommonFields, cfgState]
      · subst h; simp [minigo, file_validateCommonFields, cfgState]
      · cases h
      · cases h; omega
      all_goals (subst h; simp [minigo, file_validateCommonFields, cfgState, hk])
      all_goals (repeat' split)
      all_goals simp

end plan
end F1.Props.Refine
