/-
C13 — jitter varies each tick but preserves the long-run total.
-/
import F1Verif.Model.Jitter
import Mathlib.Tactic.Linarith
import Mathlib.Tactic.FieldSimp
import Mathlib.Tactic.Ring
import Mathlib.Tactic.Positivity
import Mathlib.Algebra.Order.Field.Basic
import Mathlib.Algebra.Order.AbsoluteValue.Basic
import Mathlib.Data.Rat.Defs
import Mathlib.Algebra.BigOperators.Group.Finset.Basic
import Mathlib.Algebra.Order.BigOperators.Group.Finset

namespace F1.Props.C13
open F1.Jitter

/-- the step relation over ℚ: `a = jitter/100`, `δ` the rounding slack -/
def Admissible (a δ : ℚ) (req out : ℤ) : Prop :=
  0 ≤ out ∧ (req ≤ 0 → out = 0) ∧ (0 < req → |(out : ℚ) - req| ≤ a * req + 1 / 2 + δ)

/-- the integer checker used on observed runs decides exactly this relation -/
theorem admissibleB_iff (jn jd : ℕ) (hjd : 0 < jd) (req out : ℤ) :
    admissibleB jn jd req out = true ↔ Admissible ((jn : ℚ) / (100 * jd)) (1 / 1000) req out := by
  unfold admissibleB Admissible
  have hD : (0 : ℚ) < 100 * (jd : ℚ) := by positivity
  by_cases hr : req ≤ 0
  · simp only [hr, if_true, Bool.and_eq_true, decide_eq_true_eq]
    constructor
    · rintro ⟨h1, h2⟩; exact ⟨h1, fun _ => h2, fun h => absurd h (by omega)⟩
    · rintro ⟨h1, h2, _⟩; exact ⟨h1, h2 trivial⟩
  · have hr' : 0 < req := by omega
    simp only [hr, if_false, Bool.and_eq_true, decide_eq_true_eq]
    have key : ((out - req).natAbs : ℤ) * (100 * (jd : ℤ)) * 2000 ≤ (jn : ℤ) * req * 2000 + 100 * (jd : ℤ) * 1000 + 100 * (jd : ℤ) * 2 ↔
        |(out : ℚ) - req| ≤ (jn : ℚ) / (100 * jd) * req + 1 / 2 + 1 / 1000 := by
      have habs : (((out - req).natAbs : ℤ) : ℚ) = |(out : ℚ) - req| := by
        rw [Int.natCast_natAbs]; push_cast; rfl
      constructor
      · intro h
        have hq : (((out - req).natAbs : ℤ) : ℚ) * (100 * jd) * 2000 ≤ (jn : ℚ) * req * 2000 + 100 * jd * 1000 + 100 * jd * 2 := by
          exact_mod_cast h
        rw [habs] at hq
        rw [div_mul_eq_mul_div, div_add' _ _ _ (ne_of_gt hD), div_add' _ _ _ (ne_of_gt hD), le_div_iff₀ hD]
        nlinarith
      · intro h
        rw [div_mul_eq_mul_div, div_add' _ _ _ (ne_of_gt hD), div_add' _ _ _ (ne_of_gt hD), le_div_iff₀ hD] at h
        have hq : (((out - req).natAbs : ℤ) : ℚ) * (100 * jd) * 2000 ≤ (jn : ℚ) * req * 2000 + 100 * jd * 1000 + 100 * jd * 2 := by
          rw [habs]; nlinarith
        exact_mod_cast hq
    constructor
    · rintro ⟨h1, h2⟩; exact ⟨h1, fun h => h.elim, fun _ => key.mp h2⟩
    · rintro ⟨h1, _, h3⟩; exact ⟨h1, key.mpr (h3 hr')⟩

/-- the carried balance of a run given by its rate and output sequences -/
def bal (r out : ℕ → ℤ) : ℕ → ℤ
  | 0 => 0
  | k + 1 => r k + bal r out k - out k

/-- C13 (telescope): whatever the random outcomes, the running total of jittered values equals the
running total of the un-jittered rate minus the balance still carried — nothing is ever lost. -/
theorem C13_telescope (r out : ℕ → ℤ) (n : ℕ) :
    (Finset.range n).sum out = (Finset.range n).sum r - bal r out n := by
  induction n with
  | zero => simp [bal]
  | succ n ih => rw [Finset.sum_range_succ, Finset.sum_range_succ, ih]; simp only [bal]; ring

/-- C13 (bounded carry): for jitter below 100 % and rates in `[0, R]` the balance never leaves
`±(a·R + 1/2 + δ)/(1 − a)` — so the two running totals stay within that fixed bound forever. -/
theorem C13_bounded (a δ R : ℚ) (ha0 : 0 ≤ a) (ha1 : a < 1) (hδ : 0 ≤ δ) (r out : ℕ → ℤ)
    (hr : ∀ k, 0 ≤ r k ∧ (r k : ℚ) ≤ R) (hstep : ∀ k, Admissible a δ (r k + bal r out k) (out k)) :
    ∀ n, |(bal r out n : ℚ)| ≤ (a * R + 1 / 2 + δ) / (1 - a) := by
  have h1a : 0 < 1 - a := by linarith
  have hR : 0 ≤ R := le_trans (by exact_mod_cast (hr 0).1) (hr 0).2
  have hB : 0 ≤ (a * R + 1 / 2 + δ) / (1 - a) := by
    apply div_nonneg _ (le_of_lt h1a); nlinarith
  intro n
  induction n with
  | zero => simpa [bal] using hB
  | succ n ih =>
    obtain ⟨ho, hneg, hpos⟩ := hstep n
    simp only [bal]
    set B := (a * R + 1 / 2 + δ) / (1 - a) with hBdef
    have hfix : a * (R + B) + 1 / 2 + δ = B := by
      rw [hBdef]; field_simp; ring
    by_cases hreq : r n + bal r out n ≤ 0
    · -- req ≤ 0: nothing is emitted, the (negative) balance moves towards 0
      have ho0 := hneg hreq
      rw [ho0]
      have hrn := (hr n).1
      have : (bal r out n : ℚ) ≤ 0 := by
        have : bal r out n ≤ 0 := by omega
        exact_mod_cast this
      have h2 : ((r n + bal r out n - 0 : ℤ) : ℚ) = (r n : ℚ) + bal r out n := by push_cast; ring
      rw [h2]
      have hq : (r n : ℚ) + bal r out n ≤ 0 := by exact_mod_cast hreq
      have hrq : (0 : ℚ) ≤ r n := by exact_mod_cast hrn
      rw [abs_le] at ih ⊢
      constructor <;> linarith [ih.1, ih.2]
    · have hreq' : 0 < r n + bal r out n := by omega
      have h := hpos hreq'
      have hcast : ((r n + bal r out n - out n : ℤ) : ℚ) = -((out n : ℚ) - ((r n + bal r out n : ℤ) : ℚ)) := by
        push_cast; ring
      rw [hcast, abs_neg]
      have hreqle : ((r n + bal r out n : ℤ) : ℚ) ≤ R + B := by
        push_cast
        have := (hr n).2
        have := (abs_le.mp ih).2
        linarith
      calc |(out n : ℚ) - ((r n + bal r out n : ℤ) : ℚ)| ≤ a * ((r n + bal r out n : ℤ) : ℚ) + 1 / 2 + δ := h
        _ ≤ a * (R + B) + 1 / 2 + δ := by nlinarith
        _ = B := hfix

/-- the running totals differ by at most the same bound, at every prefix -/
theorem C13_totals_close (a δ R : ℚ) (ha0 : 0 ≤ a) (ha1 : a < 1) (hδ : 0 ≤ δ) (r out : ℕ → ℤ)
    (hr : ∀ k, 0 ≤ r k ∧ (r k : ℚ) ≤ R) (hstep : ∀ k, Admissible a δ (r k + bal r out k) (out k)) (n : ℕ) :
    |(((Finset.range n).sum out - (Finset.range n).sum r : ℤ) : ℚ)| ≤ (a * R + 1 / 2 + δ) / (1 - a) := by
  rw [C13_telescope]
  have : ((Finset.range n).sum r - bal r out n - (Finset.range n).sum r : ℤ) = -bal r out n := by ring
  rw [this]; push_cast; rw [abs_neg]
  exact C13_bounded a δ R ha0 ha1 hδ r out hr hstep n

/-- outputs are non-negative integers -/
theorem C13_nonneg (a δ : ℚ) (req out : ℤ) (h : Admissible a δ req out) : 0 ≤ out := h.1

/-- each single value lies within jitter percent (plus rounding) of the rate plus the carry -/
theorem C13_step_range (a δ : ℚ) (req out : ℤ) (h : Admissible a δ req out) (hp : 0 < req) :
    (1 - a) * req - 1 / 2 - δ ≤ out ∧ (out : ℚ) ≤ (1 + a) * req + 1 / 2 + δ := by
  have := abs_le.mp (h.2.2 hp)
  constructor <;> linarith [this.1, this.2]

/-- zero jitter (within the relation): every value is the rate itself -/
theorem C13_zero_identity (δ : ℚ) (hδ : δ < 1 / 2) (r out : ℕ → ℤ) (hr : ∀ k, 0 ≤ r k)
    (hstep : ∀ k, Admissible 0 δ (r k + bal r out k) (out k)) : ∀ n, bal r out n = 0 ∧ out n = r n := by
  have key : ∀ n, bal r out n = 0 → out n = r n := by
    intro n hb
    obtain ⟨h0, hneg, hpos⟩ := hstep n
    rw [hb, Int.add_zero] at hneg hpos
    by_cases hz : r n ≤ 0
    · have : r n = 0 := le_antisymm hz (hr n)
      rw [this] at hneg ⊢; exact hneg (le_refl 0)
    · have h := hpos (by omega)
      rw [zero_mul, zero_add] at h
      have hlt : |(out n : ℚ) - r n| < 1 := by linarith
      have : |((out n - r n : ℤ) : ℚ)| < 1 := by push_cast; exact hlt
      have : |out n - r n| < 1 := by exact_mod_cast this
      have := Int.abs_lt_one_iff.mp this
      omega
  intro n
  induction n with
  | zero => exact ⟨rfl, key 0 rfl⟩
  | succ n ih =>
    have hb : bal r out (n + 1) = 0 := by simp only [bal]; rw [ih.1, ih.2]; ring
    exact ⟨hb, key (n + 1) hb⟩

-- non-vacuity: 20 % jitter, rate 10: the outputs 12, 8, 11, 9 with balances 0, −2, 0, −1 are admissible
example : firstBad 20 1 0 0 [(10, 12), (10, 8), (10, 11), (10, 9)] = none := by decide
-- … while losing the carry (emitting 12 again after an over-emission, forever) is not
example : firstBad 20 1 0 0 [(10, 12), (10, 12), (10, 12), (10, 12), (10, 12)] ≠ none := by decide

end F1.Props.C13
