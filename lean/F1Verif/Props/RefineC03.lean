/- C03 — the regenerated `PoolManager.NextIteration` / `MaxIterationsReached` refine the iteration-counter model (see Props/RefineBase.lean for what a refinement theorem says and assumes) -/
import F1Verif.Props.RefineBase
import F1Verif.Model.Iteration
import F1Verif.Props.C03

namespace F1.Props.Refine
open F1.MiniGo F1.Generated.MG

/-! ### C03 — `PoolManager.NextIteration`, `MaxIterationsReached` -/

section iteration
open F1.Iteration

/-- one call of the regenerated `NextIteration` on counter `c`: the counter becomes `c+1` (one atomic add), and the
caller gets the new value and no error — or 0 and the limit error exactly when the model refuses -/
theorem manager_NextIteration_refines (limit c : Nat) :
    observe (runFn noExt 0 manager_NextIteration (State.ofVars [("recv.iteration", .int c),
        ("recv.maxIterations", .int limit), ("errMaxIterationsReached", .nonNil)])) ["recv.iteration"] =
      some ((match (next limit c).2 with | some id => [.int id, .nil] | none => [.int 0, .nonNil]),
            [some (.int (next limit c).1)]) := by
  simp [minigo, manager_NextIteration, next]
  minigo_close

theorem manager_MaxIterationsReached_refines (limit c : Nat) :
    observe (runFn noExt 0 manager_MaxIterationsReached (State.ofVars [("recv.iteration", .int c),
        ("recv.maxIterations", .int limit)])) ["recv.iteration"] = some ([.bool (reached limit c)], [some (.int c)]) := by
  simp [minigo, manager_MaxIterationsReached, reached]
  minigo_close

/-- the only atomic operation of `NextIteration` is the add: concurrent calls are a sequence of calls -/
theorem manager_NextIteration_atomic : atomicOps manager_NextIteration = ["add recv.iteration"] := by decide

/-- `k` consecutive calls of the regenerated `NextIteration`, each started on the counter the previous one left:
the ids handed out and the final counter -/
def genCalls (limit : Nat) : Nat → Nat → Option (List (Option Nat) × Nat)
  | 0, c => some ([], c)
  | k + 1, c =>
    match observe (runFn noExt 0 manager_NextIteration (State.ofVars [("recv.iteration", .int c),
        ("recv.maxIterations", .int limit), ("errMaxIterationsReached", .nonNil)])) ["recv.iteration"] with
    | some ([.int id, .nil], [some (.int c')]) =>
      (genCalls limit k c'.toNat).map fun r => (some id.toNat :: r.1, r.2)
    | some ([.int 0, .nonNil], [some (.int c')]) =>
      (genCalls limit k c'.toNat).map fun r => (none :: r.1, r.2)
    | _ => none

/-- any number of calls of the regenerated code hand out exactly the ids of the model's `calls` -/
theorem genCalls_eq (limit : Nat) : ∀ (k c : Nat), genCalls limit k c = some (calls limit k c, c + k)
  | 0, c => by simp [genCalls, calls]
  | k + 1, c => by
    unfold genCalls
    rw [manager_NextIteration_refines]
    by_cases h : limit > 0 ∧ c + 1 > limit
    · have hn : (next limit c).2 = none := by simp [next, h]
      have hc : (next limit c).1 = c + 1 := rfl
      simp only [hn, hc]
      have := genCalls_eq limit k (c + 1)
      simp [this, calls, hn, hc]; omega
    · have hn : (next limit c).2 = some (c + 1) := by simp [next, h]
      have hc : (next limit c).1 = c + 1 := rfl
      simp only [hn, hc]
      have := genCalls_eq limit k (c + 1)
      simp [this, calls, hn, hc]; omega

/-- C03 about the code as it is now: whatever the number `k` of calls of the regenerated `NextIteration` (from a fresh
counter) and whatever the limit, the ids it hands out are exactly `1 … k` (no limit) or `1 … min k N`: unique, gapless,
never beyond the limit — and every refused call returns the limit error -/
theorem C03_generated_ids (N k : Nat) :
    ∃ l, genCalls N k 0 = some (l, k) ∧ accepted l = List.range' 1 (if N = 0 then k else min k N) :=
  ⟨calls N k 0, by simpa using genCalls_eq N k 0, F1.Props.C03.C03_ids N k⟩

/-- non-vacuity: limit 2, four calls -/
example : genCalls 2 4 0 = some ([some 1, some 2, none, none], 4) := by
  rw [genCalls_eq]; decide

end iteration


end F1.Props.Refine
