/-
C10 — regenerated facts: the anchored functions still read as the model of C10 assumes.
`Generated.*` is rewritten from /repo's working tree on every run; `Expected.*` is what the model was written against.
-/
import F1Verif.Generated.Facts
import F1Verif.Expected
namespace F1.Props.FactsC10

-- (staged_Rate: re-proved semantically on the regenerated MiniGo programs, see Props/Refine*.lean)

theorem fact_staged_NewRateCalculator : F1.Generated.skel_staged_NewRateCalculator = F1.Expected.skel_staged_NewRateCalculator := by rfl
theorem fact_staged_addRange : F1.Generated.skel_staged_addRange = F1.Expected.skel_staged_addRange := by rfl
theorem fact_staged_add : F1.Generated.skel_staged_add = F1.Expected.skel_staged_add := by rfl
theorem fact_staged_MaxDuration : F1.Generated.skel_staged_MaxDuration = F1.Expected.skel_staged_MaxDuration := by rfl
theorem fact_staged_Calculate : F1.Generated.skel_staged_Calculate = F1.Expected.skel_staged_Calculate := by rfl
theorem fact_staged_ParseStages : F1.Generated.skel_staged_ParseStages = F1.Expected.skel_staged_ParseStages := by rfl
theorem fact_ramp_Calculate : F1.Generated.skel_ramp_Calculate = F1.Expected.skel_ramp_Calculate := by rfl

end F1.Props.FactsC10
