/- C17 / C01 — the regenerated duration accumulators (`Add`, `Update`, `Reset`, `average`, `drain`) refine `Progress.Acc` (see Props/RefineBase.lean for what a refinement theorem says and assumes) -/
import F1Verif.Props.RefineBase
import F1Verif.Model.Progress

namespace F1.Props.Refine
open F1.MiniGo F1.Generated.MG

/-! ### C17 / C01 — the duration accumulators -/

section progress
open F1.Progress

def accState (a : Acc) : List (String × Val Rat) :=
  [("recv.sum", .int a.sum), ("recv.count", .int a.count), ("recv.min", .int a.min), ("recv.max", .int a.max)]

def accObs (a : Acc) : List (Option (Val Rat)) :=
  [some (.int a.sum), some (.int a.count), some (.int a.min), some (.int a.max)]

def accCells : List String := ["recv.sum", "recv.count", "recv.min", "recv.max"]

/-- the regenerated `IterationDurations.Add`, run to completion, is `Acc.add` -/
theorem average_Add_refines (a : Acc) (ns : Int) :
    observe (runFn noExt 0 average_Add (State.ofVars (accState a ++ [("arg0", .int ns)]))) accCells =
      some ([], accObs (a.add ns)) := by
  simp [minigo, average_Add, accState, accObs, accCells, Acc.add]
  minigo_close

/-- … and it touches the cells in this order (the interleaving model of C01 cuts it here) -/
theorem average_Add_atomic : atomicOps average_Add =
    ["add recv.sum", "add recv.count", "load recv.max", "store recv.max", "load recv.min", "store recv.min"] := by decide

def otherState (o : Acc) : List (String × Val Rat) :=
  [("arg0.sum", .int o.sum), ("arg0.count", .int o.count), ("arg0.min", .int o.min), ("arg0.max", .int o.max)]

/-- the regenerated `IterationDurations.Update` is `Acc.update` -/
theorem average_Update_refines (i o : Acc) :
    observe (runFn noExt 0 average_Update (State.ofVars (accState i ++ otherState o))) accCells =
      some ([], accObs (i.update o)) := by
  simp [minigo, average_Update, accState, otherState, accObs, accCells, Acc.update]
  minigo_close

theorem average_Reset_refines (a : Acc) :
    observe (runFn noExt 0 average_Reset (State.ofVars (accState a))) accCells = some ([], accObs Acc.empty) := by
  simp [minigo, average_Reset, accState, accObs, accCells, Acc.empty]

/-- `average`: (0, 0) for an empty accumulator, else the truncated mean and the count -/
theorem average_average_refines (a : Acc) :
    observe (runFn noExt 0 average_average (State.ofVars (accState a))) [] =
      some ([.int a.snap.avg, .int a.snap.count], []) := by
  simp [minigo, average_average, accState, Acc.snap]
  minigo_close

def drainedCells : List String := ["drained.sum", "drained.count", "drained.min", "drained.max"]

/-- `drain`: every field is taken with one swap; the drained copy holds what the accumulator held, which is left empty -/
theorem average_drain_refines (a : Acc) :
    observe (runFn noExt 0 average_drain (State.ofVars (accState a ++
        [("drained.sum", .int 0), ("drained.count", .int 0), ("drained.min", .int 0), ("drained.max", .int 0)])))
      (accCells ++ drainedCells) = some ([.nonNil], accObs Acc.empty ++ accObs a) := by
  simp [minigo, average_drain, accState, accObs, accCells, drainedCells, Acc.empty]

theorem average_drain_atomic : atomicOps average_drain =
    ["swap recv.count", "store drained.count", "swap recv.sum", "store drained.sum", "swap recv.min", "store drained.min",
     "swap recv.max", "store drained.max"] := by decide

end progress


end F1.Props.Refine
