/- C11 — the regenerated `Calculator.For` with the weight index discharged: for every instant `t ≥ 0` (ns since Go's zero
time) and positive repeat window the weight it applies is the one of window number `⌊t/W⌋ mod len` -/
import F1Verif.Props.RefineC11
import F1Verif.Props.C11

namespace F1.Props.Refine
open F1.MiniGo F1.Generated.MG F1.Gaussian

theorem gauss_For_refines_abs {F : Type} [FloatLike F] (pdfFn : F → F) (W t : Int) (ht : 0 ≤ t) (hW : 0 < W) (m avg rem : F)
    (ws : List F) (fuel : Nat) (hf : ws.length + 1 ≤ fuel) :
    let slot : F := FloatLike.ofInt (t - truncate t W)
    let w : Option F := if ws = [] then none else ws[((t / W) % ws.length).toNat]?
    observeC (runFn (gaussExt pdfFn) fuel gauss_For (calcState0 W t m avg rem ws)) ["recv.remainder"] ["recv.dist.PDF"] =
      some ([.int (forG m avg rem (pdfFn slot) w).2], [some (.flt (forG m avg rem (pdfFn slot) w).1)], [1]) := by
  intro slot w
  have hidx : ws ≠ [] → ∃ j, weightIndex t W ws.length = some j ∧ j < ws.length := by
    intro hne
    have hl : 0 < ws.length := List.length_pos_iff.mpr hne
    refine ⟨((t / W) % ws.length).toNat, F1.Props.C11.C11_weight_index t W ws.length ht hW hl, ?_⟩
    have hlz : (0 : Int) < (ws.length : Int) := by exact_mod_cast hl
    have h0 := Int.emod_nonneg (t / W) (ne_of_gt hlz)
    have h1 := Int.emod_lt_of_pos (t / W) hlz
    omega
  have h := gauss_For_refines pdfFn W t m avg rem ws fuel hf hidx
  simp only [] at h
  by_cases hne : ws = []
  · simpa [hne, w] using h
  · have hl : 0 < ws.length := List.length_pos_iff.mpr hne
    rw [F1.Props.C11.C11_weight_index t W ws.length ht hW hl] at h
    simpa [hne, w] using h

end F1.Props.Refine
