/-
C05 — a run always terminates … (the end-of-run lock protocol: no deadlock between the controller's
nested read paths and the progress runner, and the runner is gone once Stop has returned).
-/
import F1Verif.Model.RunCtl
import F1Verif.Props.C18
import F1Verif.Props.Pool
namespace F1.Props.C05
open F1.RunCtl

def bC : Bool → Nat | false => 0 | true => 1
theorem bC_true (a : Bool) : a = true ↔ bC a = 1 := by cases a <;> simp [bC]
theorem bC_false (a : Bool) : a = false ↔ bC a = 0 := by cases a <;> simp [bC]
theorem bC_le (a : Bool) : bC a ≤ 1 := by cases a <;> simp [bC]
theorem bC_not (a : Bool) : bC (!a) = 1 - bC a := by cases a <;> simp [bC]
theorem bC_t : bC true = 1 := rfl
theorem bC_f : bC false = 0 := rfl

structure Inv (s : State) : Prop where
  leg : s.legacy = false
  rp : s.rpos ≤ 7
  rd : (s.rpos = 3 ∨ s.rpos = 1 → s.readers = s.mainR + 1) ∧ (¬ (s.rpos = 3 ∨ s.rpos = 1) → s.readers = s.mainR)
  wr : (s.rpos = 5 → s.writer = true ∧ s.mainW = false) ∧ (s.rpos ≠ 5 → bC s.writer = bC s.mainW)
  ww : (s.rpos = 6 → s.ww = bC s.mainAnn + 1) ∧ (s.rpos ≠ 6 → s.ww = bC s.mainAnn)
  dead : s.alive = false → s.rpos = 0
  stp : s.stopped = true → s.alive = false
  dsc : disc s.main s.mainR s.mainW s.mainAnn (!s.stopped) s.cancelled = true

theorem inv_init (main : List Act) (h : disc main 0 false false true false = true) : Inv (init false main) := by
  refine ⟨rfl, by simp [init], by simp [init], by simp [init], by simp [init, bC], by simp [init], by simp [init], by simpa [init] using h⟩

macro "arith" : tactic =>
  `(tactic| (simp only [Bool.not_eq_false', Bool.not_eq_true', bC_true, bC_false, bC_not, bC_t, bC_f, ne_eq] at * <;> omega))

theorem inv_step (s s' : State) (e : Ev) (h : Inv s) (hs : step s e = some s') : Inv s' := by
  obtain ⟨leg, rp, rd, wr, ww, dead, stp, dsc⟩ := h
  have l1 := bC_le s.writer; have l2 := bC_le s.mainW; have l3 := bC_le s.mainAnn; have l4 := bC_le s.alive
  have l5 := bC_le s.stopped
  cases e <;> simp only [step] at hs
  · -- main
    unfold doMain at hs
    split at hs
    · cases hs
    · rename_i a rest hm
      rw [hm] at dsc
      cases a <;> simp only at hs <;> (repeat' split at hs) <;> cases hs <;>
        simp only [disc, Bool.and_eq_true, Bool.not_eq_true', beq_iff_eq, decide_eq_true_eq, Bool.or_eq_true] at dsc <;>
        (refine ⟨leg, rp, ?_, ?_, ?_, dead, ?_, ?_⟩ <;> first
          | (simp_all; done)
          | arith
          | (simp_all <;> arith)
          | (obtain ⟨⟨⟨⟨⟨_, _⟩, h1⟩, h2⟩, h3⟩, h4⟩ := dsc; simp only [h1, h2, h3]; simpa using h4))
  · -- runner
    unfold doRunner at hs
    (repeat' split at hs) <;> cases hs <;>
      (refine ⟨leg, ?_, ?_, ?_, ?_, ?_, stp, dsc⟩ <;> first | arith | (simp_all <;> arith))
  · split at hs
    · cases hs; exact ⟨leg, rp, rd, wr, ww, dead, stp, dsc⟩
    · cases hs
  · split at hs
    · rename_i hc; cases hs
      refine ⟨leg, by simp, ?_, ?_, ?_, ?_, stp, dsc⟩ <;> first | arith | (simp_all <;> arith)
    · cases hs
  · split at hs
    · rename_i hc; cases hs
      refine ⟨leg, rp, rd, wr, ww, ?_, ?_, dsc⟩ <;> first | arith | (simp_all <;> arith)
    · cases hs

theorem reachable (main : List Act) (hd : disc main 0 false false true false = true) (evs : List Ev) (s : State)
    (h : run (init false main) evs = some s) : Inv s := by
  have key : ∀ (evs : List Ev) (a b : State), Inv a → run a evs = some b → Inv b := by
    intro evs
    induction evs with
    | nil => intro a b h1 hr; simp only [run] at hr; cases hr; exact h1
    | cons e es ih =>
      intro a b h1 hr
      simp only [run] at hr
      split at hr
      · cases hr
      · rename_i a1 ha1
        exact ih a1 b (inv_step a a1 e h1 ha1) hr
  exact key evs _ s (inv_init main hd) h

/-- is some non-environment step possible? (the controller's next operation, a step of the progress
function, or the exit of the cancelled runner) -/
def canMove (s : State) : Prop :=
  (doMain s).isSome = true ∨ (doRunner s).isSome = true ∨ (step s .runnerExit).isSome = true

/-- C05 (no deadlock): in every reachable state in which the controller still has something to do,
some thread can move without waiting for a timer — for every program of the controller that obeys
the locking discipline, every number of progress ticks and every interleaving. In particular a
progress tick can no longer wedge the nested read paths of the final rendering. -/
theorem C05_no_deadlock (s : State) (h : Inv s) (hm : s.main ≠ []) : canMove s := by
  obtain ⟨leg, rp, rd, wr, ww, dead, stp, dsc⟩ := h
  have l1 := bC_le s.writer; have l2 := bC_le s.mainW; have l3 := bC_le s.mainAnn; have l4 := bC_le s.alive
  have l5 := bC_le s.stopped; have l6 := bC_le s.cancelled
  unfold canMove
  cases hmain : s.main with
  | nil => exact absurd hmain hm
  | cons a rest =>
    rw [hmain] at dsc
    have hr : (doRunner s).isSome = true ↔
        (s.rpos = 7 ∨ (s.rpos = 6 ∧ s.readers = 0 ∧ s.writer = false ∧ s.ww > 0) ∨ s.rpos = 5 ∨
         ((s.rpos = 4 ∨ s.rpos = 2) ∧ s.writer = false ∧ s.ww = 0) ∨ ((s.rpos = 3 ∨ s.rpos = 1) ∧ s.readers > 0)) := by
      unfold doRunner
      (repeat' split) <;> simp_all <;> omega
    have he : (step s .runnerExit).isSome = true ↔ (s.alive = true ∧ s.rpos = 0 ∧ s.cancelled = true) := by
      simp only [step]; split <;> simp_all
    rw [hr, he]
    clear hr he
    cases a <;> simp only [doMain, hmain, disc, Bool.and_eq_true, Bool.not_eq_true', beq_iff_eq, decide_eq_true_eq,
      Bool.or_eq_true] at dsc ⊢
    · -- rl
      by_cases hen : s.writer = false ∧ s.ww = 0
      · left; simp [hen]
      · right
        arith
    · left
      have : s.mainR > 0 ∧ s.readers > 0 := by
        arith
      simp [this]
    · left; simp
    · by_cases hen : s.readers = 0 ∧ s.writer = false ∧ s.ww > 0
      · left; simp [hen]
      · right; arith
    · left
      have : s.mainW = true := by arith
      simp [this]
    · left; simp
    · by_cases hen : s.alive = false
      · left; simp [hen]
      · right; arith

/-- C05 (quiescent): once the controller is past `Stop` the progress runner is gone — no snapshot,
no progress line and no lock request of the runner can follow. -/
theorem C05_runner_gone (s : State) (h : Inv s) (hs : s.stopped = true) :
    s.alive = false ∧ s.rpos = 0 ∧ doRunner s = none ∧ step s .recvTick = none := by
  have ha := h.stp hs
  have hr := h.dead ha
  refine ⟨ha, hr, by simp [doRunner, hr], by simp [step, ha]⟩

/-- every non-environment step strictly decreases this measure once the runner has been cancelled and
no new tick is taken, so the shutdown phase is finite -/
def measure (s : State) : Nat := 8 * s.main.length + s.rpos + (if s.alive then 1 else 0)

theorem C05_measure (s s' : State) (e : Ev) (hs : step s e = some s') (he : e = .main ∨ e = .runner ∨ e = .runnerExit) :
    measure s' < measure s := by
  unfold measure
  rcases he with rfl | rfl | rfl <;> simp only [step] at hs
  · unfold doMain at hs
    split at hs
    · cases hs
    · rename_i a rest hm
      cases a <;> simp only at hs <;> (repeat' split at hs) <;> cases hs <;> simp [hm] <;> omega
  · unfold doRunner at hs
    (repeat' split at hs) <;> cases hs <;> simp_all <;> omega
  · split at hs
    · rename_i hc; cases hs; simp [hc.1]
    · cases hs

/-- the controller's actual programs obey the discipline -/
theorem C05_doTail_disciplined : disc (doTail false) 0 false false true false = true ∧
    disc (doTail true) 0 false false true false = true := by decide

/-- the pinned tree: `Stop` did not wait, so a progress tick could announce its write lock between
the nested read locks of the teardown rendering — nobody can move any more. -/
theorem legacy_deadlock :
    ∃ s, run (init true (doTail false)) [.main, .main, .main, .tickDue, .main, .main, .main, .main, .main, .main,
        .recvTick, .runner] = some s ∧ s.main ≠ [] ∧ doMain s = none ∧ doRunner s = none ∧
        step s .runnerExit = none := ⟨_, rfl, by decide⟩

-- non-vacuity: the same schedule on the repaired runner is not possible (Stop waits), and a full
-- shutdown with a tick in flight runs to completion
example : ∃ s, run (init false (doTail false)) ([.main, .main, .main, .tickDue, .recvTick, .main, .runner, .runner, .runner,
    .runner, .runner, .runner, .runner, .runnerExit] ++ List.replicate 16 .main) = some s ∧ s.main = [] ∧ s.alive = false :=
  ⟨_, rfl, by decide⟩

/-! ### the other components at the end of a run (corollaries of C02/C04's and C18's invariants) -/

/-- when the pool has terminated no iteration is executing and no worker is left anywhere but exited -/
theorem C05_pool_clean (W N : Nat) (evs : List F1.TriggerPool.Ev) (s : F1.TriggerPool.State)
    (h : F1.TriggerPool.run false (F1.TriggerPool.init W N) evs = some s) (ht : F1.TriggerPool.terminated s = true) :
    s.w6 = 0 ∧ s.w5 = 0 ∧ s.sleeping = 0 ∧ s.woken = 0 ∧ s.exited = W := by
  have c := (F1.Props.Pool.reachable_init W N evs s h).1.total
  unfold F1.TriggerPool.terminated at ht
  simp only [Bool.and_eq_true, beq_iff_eq, decide_eq_true_eq] at ht
  have h3 := ht.2
  unfold F1.TriggerPool.workersTotal at *
  omega

/-- an idle worker always leaves once the stop flag is set: the shutdown path cannot strand a sleeper
(stop is followed by a broadcast under the lock; C04's no-lost-wake-up invariant) -/
theorem C05_sleepers_woken (W N : Nat) (evs : List F1.TriggerPool.Ev) (s : F1.TriggerPool.State)
    (h : F1.TriggerPool.run false (F1.TriggerPool.init W N) evs = some s) (hs : s.sleeping > 0) (hstop : s.stop = true) :
    F1.Props.Pool.Owed s := by
  rcases (F1.Props.Pool.reachable_init W N evs s h).2.noLost hs with h1 | h1
  · rw [hstop] at h1; cases h1.2
  · exact h1

end F1.Props.C05
