/-
C14 — every user input is either rejected with an error or yields a runnable trigger.
-/
import F1Verif.Model.Plan
import F1Verif.Legacy.Parse
namespace F1.Props.C14
open F1.Parse F1.Plan

/-! ### rate strings -/

theorem parseCount_nonneg (s : Bytes) (n : Int) (h : parseCount s = some n) : 0 ≤ n ∧ atoi s = some n := by
  unfold parseCount at h
  split at h
  · cases h
  · split at h
    · cases h
    · injection h with h; subst h; rename_i h1 h2; exact ⟨by omega, h1⟩

theorem parseCount_of (s : Bytes) (n : Int) (h : atoi s = some n) (hn : 0 ≤ n) : parseCount s = some n := by
  unfold parseCount; rw [h]; have : ¬ n < 0 := by omega
  simp [this]

/-- malformed rate strings never crash -/
theorem C14_rate_total (s : Bytes) : parseRate s ≠ .crash := by
  unfold parseRate parseUnit
  split
  · split
    · simp
    · split
      · simp
      · split
        · simp
        · split <;> simp
  · split <;> simp

theorem parseUnit_ok (rate : Int) (u : Bytes) (r v : Int) (h : parseUnit rate u = .ok (r, v)) :
    r = rate ∧ 0 < v ∧ u ≠ [] ∧
    parseDuration (if startsWithLetter u then 49 :: u else u) = some v := by
  unfold parseUnit at h
  split at h
  · cases h
  · rename_i hne
    split at h
    · cases h
    · rename_i unit hd
      split at h
      · cases h
      · injection h with h; injection h with h1 h2
        subst h1; subst h2
        refine ⟨rfl, by omega, ?_, hd⟩
        intro e; subst e; simp at hne

/-- an accepted rate has a non-negative count and a positive tick interval -/
theorem C14_rate_runnable (s : Bytes) (r u : Int) (h : parseRate s = .ok (r, u)) : 0 ≤ r ∧ 0 < u := by
  unfold parseRate at h
  split at h
  · split at h
    · cases h
    · rename_i rate hc
      obtain ⟨h1, h2, _, _⟩ := parseUnit_ok _ _ _ _ h
      subst h1
      exact ⟨(parseCount_nonneg _ _ hc).1, h2⟩
  · split at h
    · cases h
    · rename_i rate hc
      injection h with h; injection h with h1 h2
      subst h1; subst h2
      exact ⟨(parseCount_nonneg _ _ hc).1, by decide⟩

theorem indexOf_append (d : Bytes) : ∀ (n : Bytes), indexOf 47 n = none → indexOf 47 (n ++ 47 :: d) = some n.length := by
  intro n
  induction n with
  | nil => intro _; simp [indexOf]
  | cons x xs ih =>
    intro h
    simp only [indexOf] at h
    split at h
    · cases h
    · rename_i hx
      have := ih (by cases hxs : indexOf 47 xs <;> simp_all)
      simp [indexOf, hx, this]

/-- accepted rate strings mean what they spell: `N/<duration literal>` is N per that duration -/
theorem C14_meaning_duration (n d : Bytes) (hn : indexOf 47 n = none) (hd : startsWithLetter d = false)
    (hne : d ≠ []) (N D : Int) (h1 : atoi n = some N) (h2 : parseDuration d = some D) (hN : 0 ≤ N) (hD : 0 < D) :
    parseRate (n ++ 47 :: d) = .ok (N, D) := by
  unfold parseRate
  rw [indexOf_append d n hn]
  have e1 : (n ++ 47 :: d).take n.length = n := by simp
  have e2 : (n ++ 47 :: d).drop (n.length + 1) = d := by simp
  simp only [e1, e2, parseCount_of n N h1 hN]
  unfold parseUnit
  have hd' : d.isEmpty = false := by cases d <;> simp_all
  have : ¬ D ≤ 0 := by omega
  simp [hd', hd, h2, this]

/-- … a bare unit means one of it -/
theorem C14_meaning_unit (n u : Bytes) (hn : indexOf 47 n = none) (hu : startsWithLetter u = true)
    (N D : Int) (h1 : atoi n = some N) (h2 : parseDuration (49 :: u) = some D) (hN : 0 ≤ N) (hD : 0 < D) :
    parseRate (n ++ 47 :: u) = .ok (N, D) := by
  unfold parseRate
  rw [indexOf_append u n hn]
  have e1 : (n ++ 47 :: u).take n.length = n := by simp
  have e2 : (n ++ 47 :: u).drop (n.length + 1) = u := by simp
  simp only [e1, e2, parseCount_of n N h1 hN]
  unfold parseUnit
  have hne : u.isEmpty = false := by cases u <;> simp_all [startsWithLetter]
  have : ¬ D ≤ 0 := by omega
  simp [hne, hu, h2, this]

/-- … and a bare N means per second -/
theorem C14_meaning_bare (n : Bytes) (hn : indexOf 47 n = none) (N : Int) (h1 : atoi n = some N) (hN : 0 ≤ N) :
    parseRate n = .ok (N, 1000000000) := by
  unfold parseRate
  simp [hn, parseCount_of n N h1 hN]

/-! ### stages strings -/

theorem C14_stages_total (s : Bytes) : parseStages s ≠ .crash := by
  unfold parseStages
  generalize splitOn 44 s = l
  suffices ∀ acc, parseStages.go l acc ≠ .crash from this []
  induction l with
  | nil => intro acc; simp [parseStages.go]
  | cons e rest ih =>
    intro acc
    unfold parseStages.go
    split
    · split
      · exact ih _
      · simp
    · simp

/-! ### calculators and config files -/

theorem newDistribution_pos (k : Bytes) (i v : Int) (h : newDistribution k i = .ok v) : 0 < v := by
  unfold newDistribution at h
  split at h
  · cases h
  · split at h
    · injection h with h; omega
    · split at h
      · injection h with h
        subst h
        split
        · omega
        · decide
      · cases h

theorem bind_ok {α β} (r : Res α) (f : α → Res β) (v : β) (h : r.bind f = .ok v) :
    ∃ a, r = .ok a ∧ f a = .ok v := by
  cases r <;> simp_all [Res.bind]

theorem bind_not_crash {α β} (r : Res α) (f : α → Res β) (h1 : r ≠ .crash) (h2 : ∀ a, f a ≠ .crash) :
    r.bind f ≠ .crash := by
  cases r <;> simp_all [Res.bind]

theorem req_ok {α β} (o : Option α) (f : α → Res β) (v : β) (h : req o f = .ok v) :
    ∃ a, o = some a ∧ f a = .ok v := by
  cases o <;> simp_all [req]

theorem req_not_crash {α β} (o : Option α) (f : α → Res β) (h : ∀ a, f a ≠ .crash) : req o f ≠ .crash := by
  cases o <;> simp_all [req]

theorem newDistribution_total (k : Bytes) (i : Int) : newDistribution k i ≠ .crash := by
  unfold newDistribution
  split
  · simp
  · split
    · simp
    · split <;> simp

theorem calcConstant_pos (r d : Bytes) (v : Int) (h : calcConstant r d = .ok v) : 0 < v := by
  unfold calcConstant at h
  obtain ⟨p, _, hp⟩ := bind_ok _ _ _ h
  exact newDistribution_pos _ _ _ hp

theorem calcRamp_pos (a b d : Bytes) (dur v : Int) (h : calcRamp a b d dur = .ok v) : 0 < v := by
  unfold calcRamp at h
  obtain ⟨p, _, hp⟩ := bind_ok _ _ _ h
  obtain ⟨q, _, hq⟩ := bind_ok _ _ _ hp
  split at hq
  · cases hq
  · split at hq
    · cases hq
    · split at hq
      · cases hq
      · exact newDistribution_pos _ _ _ hq

theorem calcStaged_pos (f : Int) (s d : Bytes) (v : Int) (h : calcStaged f s d = .ok v) : 0 < v := by
  unfold calcStaged at h
  obtain ⟨p, _, hp⟩ := bind_ok _ _ _ h
  exact newDistribution_pos _ _ _ hp

theorem calcGaussian_pos (f sd : Int) (w d : Bytes) (g : Bool) (v : Int) (h : calcGaussian f sd w d g = .ok v) : 0 < v := by
  unfold calcGaussian at h
  split at h
  · split at h
    · cases h
    · split at h
      · cases h
      · exact newDistribution_pos _ _ _ h
  · cases h

/-- an accepted gaussian configuration is one a rate can be derived for -/
theorem calcGaussian_derivable (f sd : Int) (w d : Bytes) (g : Bool) (v : Int) (h : calcGaussian f sd w d g = .ok v) :
    g = true ∧ 0 < sd := by
  unfold calcGaussian at h
  split at h
  · split at h
    · cases h
    · split at h
      · cases h
      · rename_i h1 h2
        exact ⟨by simpa using h2, by omega⟩
  · cases h

/-- a parsed stage can run: a rate-driven stage has a positive tick interval, a users stage at
least one worker -/
def Runnable (r : RStage) : Prop := (r.users = 0 ∧ 0 < r.interval) ∨ (1 ≤ r.users ∧ r.interval = 0)

theorem parseStage_runnable (s d : StageCfg) (mode : Bytes) (dur : Int) (r : RStage)
    (h : parseStage s d mode dur = .ok r) : Runnable r ∧ r.duration = dur ∧
      r.params = (inh s.parameters d.parameters).getD [] := by
  unfold parseStage at h
  split at h
  · obtain ⟨_, _, h⟩ := req_ok _ _ _ h
    obtain ⟨_, _, h⟩ := req_ok _ _ _ h
    obtain ⟨iv, hiv, h⟩ := bind_ok _ _ _ h
    injection h with h; subst h
    exact ⟨Or.inl ⟨rfl, calcConstant_pos _ _ _ hiv⟩, rfl, rfl⟩
  · split at h
    · obtain ⟨_, _, h⟩ := req_ok _ _ _ h
      obtain ⟨_, _, h⟩ := req_ok _ _ _ h
      obtain ⟨_, _, h⟩ := req_ok _ _ _ h
      obtain ⟨iv, hiv, h⟩ := bind_ok _ _ _ h
      injection h with h; subst h
      exact ⟨Or.inl ⟨rfl, calcRamp_pos _ _ _ _ _ hiv⟩, rfl, rfl⟩
    · split at h
      · obtain ⟨_, _, h⟩ := req_ok _ _ _ h
        obtain ⟨_, _, h⟩ := req_ok _ _ _ h
        obtain ⟨_, _, h⟩ := req_ok _ _ _ h
        obtain ⟨iv, hiv, h⟩ := bind_ok _ _ _ h
        injection h with h; subst h
        exact ⟨Or.inl ⟨rfl, calcStaged_pos _ _ _ _ hiv⟩, rfl, rfl⟩
      · split at h
        · obtain ⟨_, _, h⟩ := req_ok _ _ _ h
          obtain ⟨_, _, h⟩ := req_ok _ _ _ h
          obtain ⟨_, _, h⟩ := req_ok _ _ _ h
          obtain ⟨_, _, h⟩ := req_ok _ _ _ h
          obtain ⟨_, _, h⟩ := req_ok _ _ _ h
          obtain ⟨_, _, h⟩ := req_ok _ _ _ h
          obtain ⟨_, _, h⟩ := req_ok _ _ _ h
          obtain ⟨iv, hiv, h⟩ := bind_ok _ _ _ h
          injection h with h; subst h
          exact ⟨Or.inl ⟨rfl, calcGaussian_pos _ _ _ _ _ _ hiv⟩, rfl, rfl⟩
        · split at h
          · obtain ⟨c, _, h⟩ := req_ok _ _ _ h
            split at h
            · cases h
            · injection h with h; subst h
              exact ⟨Or.inr ⟨by simp only; omega, rfl⟩, rfl, rfl⟩
          · cases h

end F1.Props.C14
