/-
C16 — exported metrics carry the right labels (pairing of static label names and values).
The sample-count half of C16 is the metric part of C01's invariant (`Inv.mS/mF/mD`).
-/
import F1Verif.Model.Labels
import F1Verif.Props.C01
namespace F1.Props.C16
open F1.Labels

def KeysNodup (m : LMap) : Prop := (m.map (·.1)).Nodup

theorem sortedKeys_perm (m : LMap) : (sortedKeys m).Perm (m.map (·.1)) :=
  List.mergeSort_perm _ _

theorem sortedKeys_sorted (m : LMap) : (sortedKeys m).Pairwise (· ≤ ·) := by
  have := List.pairwise_mergeSort (le := fun (a b : String) => decide (a ≤ b))
    (fun a b c h1 h2 => by simp only [decide_eq_true_eq] at *; exact String.le_trans h1 h2)
    (fun a b => by simp only [Bool.or_eq_true, decide_eq_true_eq]; exact String.le_total a b) (m.map (·.1))
  unfold sortedKeys
  simpa using this

/-- the label names do not depend on the order in which the map is traversed -/
theorem C16_keys_order_independent (m m' : LMap) (h : m.Perm m') : labelKeys m = labelKeys m' := by
  unfold labelKeys
  apply List.Perm.eq_of_pairwise (le := (· ≤ ·)) (fun a b _ _ h1 h2 => String.le_antisymm h1 h2)
    (sortedKeys_sorted m) (sortedKeys_sorted m')
  exact (sortedKeys_perm m).trans ((h.map _).trans (sortedKeys_perm m').symm)

theorem lookup_mem (m : LMap) (hn : KeysNodup m) (k v : String) (h : (k, v) ∈ m) : lookup m k = v := by
  unfold lookup
  induction m with
  | nil => cases h
  | cons p ps ih =>
    unfold KeysNodup at hn
    rw [List.map_cons, List.nodup_cons] at hn
    rcases List.mem_cons.mp h with h | h
    · subst h; simp [List.find?]
    · have hne : p.1 ≠ k := by
        intro e
        apply hn.1
        rw [e]
        exact List.mem_map.mpr ⟨(k, v), h, rfl⟩
      have : (p.1 == k) = false := by simpa using hne
      simp only [List.find?, this]
      exact ih hn.2 h

theorem lookup_perm (m m' : LMap) (hn : KeysNodup m) (h : m.Perm m') (k : String) (hk : k ∈ m.map (·.1)) :
    lookup m k = lookup m' k := by
  obtain ⟨p, hp, rfl⟩ := List.mem_map.mp hk
  have hn' : KeysNodup m' := (h.map _).nodup_iff.mp hn
  rw [lookup_mem m hn p.1 p.2 hp, lookup_mem m' hn' p.1 p.2 (h.subset hp)]

/-- … and neither do the values -/
theorem C16_values_order_independent (m m' : LMap) (hn : KeysNodup m) (h : m.Perm m') :
    labelValues m = labelValues m' := by
  unfold labelValues
  have hk := C16_keys_order_independent m m' h
  unfold labelKeys at hk
  rw [← hk]
  apply List.map_congr_left
  intro k hk'
  exact lookup_perm m m' hn h k ((sortedKeys_perm m).subset hk')

/-- C16 (pairing): every static label name is paired with its own value, each configured label
appears exactly once, for any map and any traversal order -/
theorem C16_pairing (m : LMap) (hn : KeysNodup m) :
    ((labelKeys m).zip (labelValues m)).Perm m := by
  unfold labelKeys labelValues
  rw [List.zip_map_right]
  have : (List.zip (sortedKeys m) (sortedKeys m)).map (Prod.map id (lookup m)) = (sortedKeys m).map fun k => (k, lookup m k) := by
    induction sortedKeys m with
    | nil => rfl
    | cons a as ih => simp [ih]
  rw [this]
  have h1 : ((sortedKeys m).map fun k => (k, lookup m k)).Perm ((m.map (·.1)).map fun k => (k, lookup m k)) :=
    (sortedKeys_perm m).map _
  refine h1.trans ?_
  rw [List.map_map]
  have : m.map ((fun k => (k, lookup m k)) ∘ (·.1)) = m := by
    have : ∀ p ∈ m, ((fun k => (k, lookup m k)) ∘ (·.1)) p = p := by
      intro p hp
      simp only [Function.comp]
      rw [lookup_mem m hn p.1 p.2 hp]
    rw [List.map_congr_left this, List.map_id']
  rw [this]

theorem C16_lengths (m : LMap) : (labelKeys m).length = m.length ∧ (labelValues m).length = m.length := by
  unfold labelKeys labelValues
  have := (sortedKeys_perm m).length_eq
  simp_all

/-- C16 (samples): in every reachable state the metric samples per result label are the completed
iterations of that outcome plus those between their metric observation and their progress record;
at quiescence they are exactly the counts the final result reports (corollary of C01). -/
theorem C16_samples (evs : List F1.ProgressConc.Ev) (s : F1.ProgressConc.State)
    (h : F1.ProgressConc.run false {} evs = some s) :
    s.mS = s.aS + s.iS ∧ s.mF = s.aF + s.iF ∧ s.mD = s.aD + s.iD :=
  let inv := F1.Props.C01.C01_reachable evs s h
  ⟨inv.mS, inv.mF, inv.mD⟩

-- non-vacuity: the hypothesis is satisfiable by a map with a key that is a prefix of another one
example : KeysNodup [("zone2", "primary"), ("zone", "secondary"), ("team", "x")] := by
  simp [KeysNodup]

end F1.Props.C16
