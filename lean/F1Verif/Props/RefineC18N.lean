/- C18 / C04 / C03 — constructors, regenerated: `raterun.New` and `newSchedules` (the schedule list is kept as given),
`workers.New` (limit and scenario), `newTriggerPool` / `newContinuousPool` (exactly `numWorkers` handles, from the manager
the pool belongs to). A literal `&T{F: e, …}` is translated field by field (`$ret.F` when returned, `$new.x.F` when bound to
a local `x`). -/
import F1Verif.Props.RefineBase

namespace F1.Props.Refine
open F1.MiniGo F1.Generated.MG

def ctorExt : Ext Rat := fun f _ args =>
  if f = "newSchedules" then (match args with | [.ref n] => .ref (100 + n) | _ => .nil)
  else if f = "time.NewTicker" then (match args with | [.int d] => .int d | _ => .nil)
  else if f = "time.NewTimer" then (match args with | [.int d] => .int (d + 1) | _ => .nil)
  else if f = "arg0.makeIterationStatePool" then (match args with | [.int n] => .int (1000 + n) | _ => .nil)
  else if f = "sync.NewCond" then .ref 9
  else .nil

/-- **`raterun.New`** (C18n): an empty schedule list is an error; otherwise the runner holds the function it was given and
the schedules built from *the list it was given* — the same value, not a copy in another order — and two new channels -/
theorem runner_New_refines (n : Nat) :
    observe (runFn ctorExt 0 runner_New ⟨[("arg0", .ref 1), ("arg1", .ref 2)], [], [], [],
        [("arg1", List.replicate n [("StartDelay", Val.int 0)])]⟩)
        (if n = 0 then [] else ["$new.rateRunner.runFunction", "$new.rateRunner.schedules", "$new.rateRunner.restart",
          "$new.rateRunner.stopped"]) =
      some (if n = 0 then [.nil, .nonNil] else [.nonNil, .nil],
        if n = 0 then [] else [some (.ref 1), some (.ref 102), some .nonNil, some .nonNil]) := by
  cases n <;> simp [minigo, runner_New, ctorExt, List.replicate] <;> omega

/-- **`newSchedules`**: the list as given, no schedule active yet (index −1), a placeholder ticker of one hour, and the timer
that starts the first schedule set to the first entry's start delay -/
theorem schedules_new_refines (d0 : Int) (rest : List (List (String × Val Rat))) :
    observe (runFn ctorExt 0 schedules_new ⟨[("arg0", .ref 2)], [], [], [],
        [("arg0", [("StartDelay", Val.int d0), ("Frequency", Val.int 5)] :: rest)]⟩)
        ["$ret.list", "$ret.currentScheduleIndex", "$ret.ticker", "$ret.nextScheduleTimer"] =
      some ([.nonNil], [some (.ref 2), some (.int (-1)), some (.int 3600000000000), some (.int (d0 + 1))]) := by
  simp [minigo, schedules_new, ctorExt]

/-- `workers.New`: the limit and the scenario it was given; the iteration counter starts at its zero value -/
theorem manager_New_refines (limit : Int) :
    observe (runFn ctorExt 0 manager_New (State.ofVars [("arg0", .int limit), ("arg1", .ref 3)]))
        ["$new.w.maxIterations", "$new.w.activeScenario"] = some ([.nonNil], [some (.int limit), some (.ref 3)]) := by
  simp [minigo, manager_New]

/-- **the pools** (C04: exactly `concurrency` worker handles): both constructors make the state pool with the number of
workers they were given, through the manager they were given, and remember both -/
theorem pool_new_refines (n : Int) :
    observe (runFn ctorExt 0 pool_new (State.ofVars [("arg0", .ref 4), ("arg1", .int n)]))
        ["$ret.numWorkers", "$ret.iterationStatePool", "$ret.manager"] =
      some ([.nonNil], [some (.int n), some (.int (1000 + n)), some (.ref 4)]) ∧
    observe (runFn ctorExt 0 cpool_new (State.ofVars [("arg0", .ref 4), ("arg1", .int n)]))
        ["$ret.numWorkers", "$ret.iterationStatePool", "$ret.manager"] =
      some ([.nonNil], [some (.int n), some (.int (1000 + n)), some (.ref 4)]) := by
  simp [minigo, pool_new, cpool_new, ctorExt]

def activeExt : Ext Rat := fun f _ args =>
  if f = "testing.NewTWithOptions" then (if args.head? = some (.int 0) then .ref 20 else .ref 21)
  else if f = "testing.WithLogger" ∨ f = "testing.WithLogrusLogger" then (match args with | [v] => v | _ => .nil)
  else .nil

/-- **`NewActiveScenario`** (C06: the setup handle and its teardown; C16 / C01: one metrics instance, one statistics
object): the setup handle is made for the scenario's name with the logger the run was given; the active scenario keeps that
handle, **the teardown function of that very handle** as `Teardown`, the scenario, the metrics instance and the statistics
object it was given -/
theorem active_New_refines :
    observe (runFn activeExt 0 active_New (State.ofVars [("arg0", .ref 1), ("arg0.Name", .ref 2), ("arg1", .ref 3),
        ("arg2", .ref 4), ("arg3", .ref 5), ("arg4", .ref 6)]))
        ["$new.s.scenario", "$new.s.m", "$new.s.t", "$new.s.Teardown", "$new.s.progress", "$new.s.logger"] =
      some ([.nonNil], [some (.ref 1), some (.ref 3), some (.ref 20), some (.ref 21), some (.ref 4), some (.ref 5)]) ∧
    (match runFn activeExt 0 active_New (State.ofVars [("arg0", .ref 1), ("arg0.Name", .ref 2), ("arg1", .ref 3),
        ("arg2", .ref 4), ("arg3", .ref 5), ("arg4", .ref 6)]) with
     | .ok (_, s) => lookup "testing.NewTWithOptions" s.arrs =
         some [[("0", Val.ref 2), ("1", Val.nil), ("2", Val.ref 5), ("3", Val.ref 6)]]
     | .error _ => False) := by
  simp [minigo, active_New, activeExt]

end F1.Props.Refine
