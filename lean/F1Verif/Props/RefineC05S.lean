/- C05 / C04 / C02 — the regenerated `Start` of the two pools (internal/workers): in which order a pool registers its
goroutines with the manager's wait group, launches them and arms its stop flag. Users pool (D24): when the context has
ended already the stop flag is up before a single worker is launched, and the goroutine that watches the context exists
before the workers do. Trigger pool (D22): the goroutine that stops the pool — and reports what was still pending — is
added to the wait group before it is started, and `Start` returns (work is offered) only after every worker exists. -/
import F1Verif.Props.RefineBase

namespace F1.Props.Refine
open F1.MiniGo F1.Generated.MG

section start
variable {F : Type} [FloatLike F]

def startExt (ended : Bool) : Ext F := fun f _ args =>
  if f = "context.WithCancel" then (match args with | .int 0 :: _ => .ref 1 | _ => .ref 2)
  else if f = "Err()" then (if ended then .nonNil else .nil)
  else .nil

def cpLoop : Stmt :=
  (.while (.bin .lt (.var "$i0") (.var "$n0"))
  (.seq (.assign "iterationState" (.index "recv.iterationStatePool" (.var "$i0") ""))
  (.seq (.seq (.eval (.var "iterationState"))
  (.seq (.eval (.var "workersStarted"))
  (.effect "go recv.startWorker")))
  (.assign "$i0" (.bin .add (.var "$i0") (.int 1))))))

def cpState (n : Nat) (flag : Bool) (i : Int) (is : Val F) (c : Nat) (tr : List String) : State F :=
  ⟨[("arg0", .ref 0), ("recv.numWorkers", .int n), ("recv.stopWorkers", .bool flag), ("workerCtx", .ref 1),
    ("workerCtxCancel", .ref 2), ("recv.workerCtxCancel", .ref 2), ("workersStarted", .nonNil),
    ("$arg.workersStarted.Add.0", .int n), ("$arg.recv.manager.runningWorkers.Add.0", .int n),
    ("$n0", .int n), ("$i0", .int i), ("iterationState", is)],
   [("context.WithCancel", c)], tr, [], [("recv.iterationStatePool", (List.range n).map fun k => [("", Val.ref (100 + k))]),
    ("context.WithCancel", [[("0", Val.ref 0)]])]⟩

theorem cpLoop_spec (ext : Ext F) (n : Nat) (flag : Bool) (c : Nat) : ∀ (k : Nat) (i : Nat) (is : Val F) (tr : List String) (fuel : Nat),
    i + k = n → k + 1 ≤ fuel →
    ∃ is', exec ext fuel cpLoop (cpState n flag i is c tr) =
      .normal (cpState n flag n is' c (List.replicate k "go recv.startWorker" ++ tr))
  | 0, i, is, tr, fuel, hik, hf => by
    obtain ⟨f, rfl⟩ : ∃ f, fuel = f + 1 := ⟨fuel - 1, by omega⟩
    have : i = n := by omega
    subst this
    exact ⟨is, by simp [minigo, cpLoop, cpState]⟩
  | k + 1, i, is, tr, fuel, hik, hf => by
    obtain ⟨f, rfl⟩ : ∃ f, fuel = f + 1 := ⟨fuel - 1, by omega⟩
    obtain ⟨is', ih⟩ := cpLoop_spec ext n flag c k (i + 1) (.ref (100 + i)) ("go recv.startWorker" :: tr) f (by omega) (by omega)
    refine ⟨is', ?_⟩
    have h1 : (i : Int) < n := by omega
    have h2 : ¬ ((i : Int) < 0) := by omega
    have hlt : i < n := by omega
    have hr : (List.range n)[i]? = some i := by simp [hlt]
    simp [cpLoop, cpState] at ih
    simp [minigo, cpLoop, cpState, h1, h2, hr]
    rw [ih]
    simp [List.replicate_succ']

/-- the users pool before `Start`, with the locals of `Start` declared -/
def cpState0 (n : Nat) (l : List (Val F)) : State F :=
  ⟨[("arg0", .ref 0), ("recv.numWorkers", .int n), ("recv.stopWorkers", .bool false), ("workerCtx", l.getD 0 .nil),
    ("workerCtxCancel", l.getD 1 .nil), ("recv.workerCtxCancel", l.getD 2 .nil), ("workersStarted", l.getD 3 .nil),
    ("$arg.workersStarted.Add.0", l.getD 4 .nil), ("$arg.recv.manager.runningWorkers.Add.0", l.getD 5 .nil),
    ("$n0", l.getD 6 .nil), ("$i0", l.getD 7 .nil), ("iterationState", l.getD 8 .nil)],
   [("context.WithCancel", 0)], [], [], [("recv.iterationStatePool", (List.range n).map fun k => [("", Val.ref (100 + k))]),
    ("context.WithCancel", [])]⟩

/-- **the regenerated `ContinuousPool.Start`** (D24): the stop flag is up before anything else happens iff the context had
already ended; the goroutine watching the context is started, and both wait groups are raised, before the first of the
`n` workers is launched; what is returned is the context the users run under (D27) -/
theorem cpool_Start_refines (n : Nat) (ended : Bool) (l : List (Val F)) (fuel : Nat) (hf : n + 1 ≤ fuel) :
    observe (runFn (startExt ended) fuel cpool_Start (cpState0 n l)) ["recv.stopWorkers"] = some ([.ref 1], [some (.bool ended)]) ∧
    traceOf (runFn (startExt ended) fuel cpool_Start (cpState0 n l)) =
      ["go func", "workersStarted.Add(…)", "recv.manager.runningWorkers.Add(…)"] ++ List.replicate n "go recv.startWorker" := by
  obtain ⟨is', h⟩ := cpLoop_spec (startExt (F := F) ended) n ended 1 n 0 (l.getD 8 .nil)
    ["recv.manager.runningWorkers.Add(…)", "workersStarted.Add(…)", "go func"] fuel (by omega) hf
  simp [cpLoop, cpState] at h
  cases ended <;> simp [minigo, cpool_Start, cpState0, startExt, h, cpState]

/-! the trigger pool -/

def tpLoop : Stmt :=
  (.while (.bin .lt (.var "$i0") (.var "$n0"))
  (.seq (.assign "statePool" (.index "recv.iterationStatePool" (.var "$i0") ""))
  (.seq (.seq (.eval (.var "statePool"))
  (.seq (.eval (.var "startedWg"))
  (.effect "go recv.run")))
  (.assign "$i0" (.bin .add (.var "$i0") (.int 1))))))

def tpState (n : Nat) (i : Int) (sp : Val F) (a0 : Val F) (c : Nat) (tr : List String) : State F :=
  ⟨[("arg0", .ref 0), ("recv.numWorkers", .int n), ("$arg.recv.manager.runningWorkers.Add.0", a0), ("startedWg", .nonNil),
    ("$arg.startedWg.Add.0", .int n), ("workerCtx", .ref 1), ("cancel", .ref 2), ("recv.workerCtxCancel", .ref 2),
    ("$n0", .int n), ("$i0", .int i), ("statePool", sp)],
   [("context.WithCancel", c)], tr, [], [("recv.iterationStatePool", (List.range n).map fun k => [("", Val.ref (100 + k))]),
    ("context.WithCancel", [[("0", Val.ref 0)]])]⟩

theorem tpLoop_spec (ext : Ext F) (n : Nat) (a0 : Val F) (c : Nat) : ∀ (k : Nat) (i : Nat) (sp : Val F) (tr : List String) (fuel : Nat),
    i + k = n → k + 1 ≤ fuel →
    ∃ sp', exec ext fuel tpLoop (tpState n i sp a0 c tr) =
      .normal (tpState n n sp' a0 c (List.replicate k "go recv.run" ++ tr))
  | 0, i, sp, tr, fuel, hik, hf => by
    obtain ⟨f, rfl⟩ : ∃ f, fuel = f + 1 := ⟨fuel - 1, by omega⟩
    have : i = n := by omega
    subst this
    exact ⟨sp, by simp [minigo, tpLoop, tpState]⟩
  | k + 1, i, sp, tr, fuel, hik, hf => by
    obtain ⟨f, rfl⟩ : ∃ f, fuel = f + 1 := ⟨fuel - 1, by omega⟩
    obtain ⟨sp', ih⟩ := tpLoop_spec ext n a0 c k (i + 1) (.ref (100 + i)) ("go recv.run" :: tr) f (by omega) (by omega)
    refine ⟨sp', ?_⟩
    have h1 : (i : Int) < n := by omega
    have h2 : ¬ ((i : Int) < 0) := by omega
    have hlt : i < n := by omega
    have hr : (List.range n)[i]? = some i := by simp [hlt]
    simp [tpLoop, tpState] at ih
    simp [minigo, tpLoop, tpState, h1, h2, hr]
    rw [ih]
    simp [List.replicate_succ']

def tpState0 (n : Nat) (l : List (Val F)) : State F :=
  ⟨[("arg0", .ref 0), ("recv.numWorkers", .int n), ("$arg.recv.manager.runningWorkers.Add.0", l.getD 0 .nil), ("startedWg", l.getD 1 .nil),
    ("$arg.startedWg.Add.0", l.getD 2 .nil), ("workerCtx", l.getD 3 .nil), ("cancel", l.getD 4 .nil), ("recv.workerCtxCancel", l.getD 5 .nil),
    ("$n0", l.getD 6 .nil), ("$i0", l.getD 7 .nil), ("statePool", l.getD 8 .nil)],
   [("context.WithCancel", 0)], [], [], [("recv.iterationStatePool", (List.range n).map fun k => [("", Val.ref (100 + k))]),
    ("context.WithCancel", [])]⟩

/-- **the regenerated `TriggerPool.Start`** (D22, C04): the `n` workers are registered with the manager's wait group before
they are launched; `Start` waits until every one of them exists before it goes on (so work is only offered to a complete
pool); the goroutine that will stop the pool — and report what is still pending then — is added to the same wait group
*before* it is started, with a count of exactly one; the context handed back is the pool's own -/
theorem pool_Start_refines (n : Nat) (ended : Bool) (l : List (Val F)) (fuel : Nat) (hf : n + 1 ≤ fuel) :
    traceOf (runFn (startExt ended) fuel pool_Start (tpState0 n l)) =
      ["recv.manager.runningWorkers.Add(…)", "startedWg.Add(…)"] ++ List.replicate n "go recv.run" ++
      ["startedWg.Wait", "recv.manager.runningWorkers.Add(…)", "go func"] ∧
    observe (runFn (startExt ended) fuel pool_Start (tpState0 n l)) ["$arg.recv.manager.runningWorkers.Add.0"] =
      some ([.ref 1], [some (.int 1)]) := by
  obtain ⟨sp', h⟩ := tpLoop_spec (startExt (F := F) ended) n (.int n) 1 n 0 (l.getD 8 .nil)
    ["startedWg.Add(…)", "recv.manager.runningWorkers.Add(…)"] fuel (by omega) hf
  simp [tpLoop, tpState] at h
  simp [minigo, pool_Start, tpState0, startExt, h, tpState]

end start
end F1.Props.Refine
