/-
C02 — regenerated facts: the anchored functions still read as the model of C02 assumes.
`Generated.*` is rewritten from /repo's working tree on every run; `Expected.*` is what the model was written against.
-/
import F1Verif.Generated.Facts
import F1Verif.Expected
namespace F1.Props.FactsC02

-- (jobCounter_set, jobCounter_none, jobCounter_take, pool_running: re-proved semantically on the regenerated MiniGo programs, see Props/Refine*.lean)

theorem fact_pool_Trigger : F1.Generated.skel_pool_Trigger = F1.Expected.skel_pool_Trigger := by rfl
theorem fact_pool_sendJobs : F1.Generated.skel_pool_sendJobs = F1.Expected.skel_pool_sendJobs := by rfl
theorem fact_pool_stop : F1.Generated.skel_pool_stop = F1.Expected.skel_pool_stop := by rfl
theorem fact_pool_maxIterationsReached : F1.Generated.skel_pool_maxIterationsReached = F1.Expected.skel_pool_maxIterationsReached := by rfl
theorem fact_pool_run : F1.Generated.skel_pool_run = F1.Expected.skel_pool_run := by rfl
theorem fact_pool_waitForNewJobs : F1.Generated.skel_pool_waitForNewJobs = F1.Expected.skel_pool_waitForNewJobs := by rfl
theorem fact_pool_Start : F1.Generated.skel_pool_Start = F1.Expected.skel_pool_Start := by rfl
theorem fact_pool_new : F1.Generated.skel_pool_new = F1.Expected.skel_pool_new := by rfl
theorem fact_api_NewIterationWorker : F1.Generated.skel_api_NewIterationWorker = F1.Expected.skel_api_NewIterationWorker := by rfl

end F1.Props.FactsC02
