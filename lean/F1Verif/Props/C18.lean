/-
C18 — the periodic progress runner fires only while running; quiescent after Stop.
-/
import F1Verif.Model.RateRun
namespace F1.Props.C18
open F1.RateRun

structure Inv (s : State) : Prop where
  /-- the function is invoked at most once per tick that became due -/
  once : s.calls + (if s.phase = .dispatching then 1 else 0) + (if s.tickPending then 1 else 0) ≤ s.ticksDue
  /-- `stopped` is closed only when the goroutine has exited -/
  closed : s.stoppedClosed = true → s.phase = .exited
  /-- once Stop has returned the goroutine is gone … -/
  quiet : s.stopReturned = true → s.phase = .exited
  /-- … it was not executing the function when Stop returned, and was never invoked afterwards -/
  noLate : s.callsAfterStop = 0 ∧ s.inFnAtStopReturn = false
  /-- nothing runs before Start -/
  before : s.phase = .notStarted → s.calls = 0
  /-- the schedule index stays inside the list -/
  idxRange : -1 ≤ s.idx

theorem inv_init : Inv {} := by
  refine ⟨by decide, by decide, by decide, by decide, fun _ => rfl, by decide⟩

theorem startSchedule_facts (n : Nat) (s : State) (i : Int) (hi : 0 ≤ i) :
    (startSchedule n s i).phase = s.phase ∧ (startSchedule n s i).calls = s.calls ∧
    (startSchedule n s i).ticksDue = s.ticksDue ∧ (startSchedule n s i).stoppedClosed = s.stoppedClosed ∧
    (startSchedule n s i).stopReturned = s.stopReturned ∧ (startSchedule n s i).callsAfterStop = s.callsAfterStop ∧
    (startSchedule n s i).inFnAtStopReturn = s.inFnAtStopReturn ∧
    ((startSchedule n s i).tickPending = true → s.tickPending = true) ∧
    (-1 ≤ s.idx → -1 ≤ (startSchedule n s i).idx) := by
  unfold startSchedule
  split
  · simp
  · simp; omega

theorem inv_step (n : Nat) (s s' : State) (e : Ev) (h : Inv s) (hs : step false n s e = some s') : Inv s' := by
  obtain ⟨once, closed, quiet, noLate, before, idxRange⟩ := h
  cases e <;> simp only [step] at hs
  · -- start
    split at hs
    · rename_i hp
      injection hs with hs; subst hs
      have hc := before hp
      refine ⟨?_, ?_, ?_, noLate, ?_, idxRange⟩
      · simp only; rw [hp] at once; simp at once ⊢; exact once
      · simp
      · intro hq; have := quiet hq; rw [hp] at this; cases this
      · simp
    · cases hs
  · -- tickDue
    split at hs
    · injection hs with hs; subst hs
      refine ⟨?_, closed, quiet, noLate, before, idxRange⟩
      simp only
      cases htp : s.tickPending <;> simp [htp] at once ⊢ <;> omega
    · cases hs
  · -- timerDue
    split at hs
    · injection hs with hs; subst hs
      exact ⟨once, closed, quiet, noLate, before, idxRange⟩
    · cases hs
  · -- restartCall
    split at hs
    · cases hs
    · injection hs with hs; subst hs
      exact ⟨once, closed, quiet, noLate, before, idxRange⟩
  · -- recvRestart
    split at hs
    · rename_i hc
      injection hs with hs; subst hs
      obtain ⟨f1, f2, f3, f4, f5, f6, f7, f8, f9⟩ := startSchedule_facts n { s with restartBuf := false } 0 (by decide)
      refine ⟨?_, ?_, ?_, ?_, ?_, f9 idxRange⟩
      · rw [f1, f2, f3]
        simp only at f8 ⊢
        cases hx : (startSchedule n { s with restartBuf := false } 0).tickPending
        · simp; cases htp : s.tickPending <;> simp [htp] at once <;> omega
        · have := f8 hx; simp [this] at once ⊢; exact once
      · rw [f4, f1]; exact closed
      · rw [f5, f1]; exact quiet
      · rw [f6, f7]; exact noLate
      · rw [f1, f2]; exact before
    · cases hs
  · -- recvTimer
    split at hs
    · rename_i hc
      injection hs with hs; subst hs
      obtain ⟨f1, f2, f3, f4, f5, f6, f7, f8, f9⟩ := startSchedule_facts n { s with timerPending := false } (s.idx + 1) (by omega)
      refine ⟨?_, ?_, ?_, ?_, ?_, f9 idxRange⟩
      · rw [f1, f2, f3]
        simp only at f8 ⊢
        cases hx : (startSchedule n { s with timerPending := false } (s.idx + 1)).tickPending
        · simp; cases htp : s.tickPending <;> simp [htp] at once <;> omega
        · have := f8 hx; simp [this] at once ⊢; exact once
      · rw [f4, f1]; exact closed
      · rw [f5, f1]; exact quiet
      · rw [f6, f7]; exact noLate
      · rw [f1, f2]; exact before
    · cases hs
  · -- recvTick
    split at hs
    · rename_i hc
      injection hs with hs; subst hs
      refine ⟨?_, ?_, ?_, noLate, ?_, idxRange⟩
      · simp only; rw [hc.1, hc.2] at once; simp at once ⊢; omega
      · intro hq; have := closed hq; rw [hc.1] at this; cases this
      · intro hq; have := quiet hq; rw [hc.1] at this; cases this
      · intro hq; cases hq
    · cases hs
  · -- fnCall
    split at hs
    · rename_i hc
      injection hs with hs; subst hs
      have hnr : s.stopReturned = false := by
        cases hx : s.stopReturned
        · rfl
        · have := quiet hx; rw [hc] at this; cases this
      refine ⟨?_, ?_, ?_, ?_, ?_, idxRange⟩
      · simp only; rw [hc] at once; simp at once ⊢; omega
      · intro hq; have := closed hq; rw [hc] at this; cases this
      · intro hq; rw [hnr] at hq; cases hq
      · simp only [hnr]; simpa using noLate
      · intro hq; cases hq
    · cases hs
  · -- fnReturn
    split at hs
    · rename_i hc
      injection hs with hs; subst hs
      refine ⟨?_, ?_, ?_, noLate, ?_, idxRange⟩
      · simp only; rw [hc] at once; simp at once ⊢; exact once
      · intro hq; have := closed hq; rw [hc] at this; cases this
      · intro hq; have := quiet hq; rw [hc] at this; cases this
      · intro hq; cases hq
    · cases hs
  · -- cancel
    injection hs with hs; subst hs
    exact ⟨once, closed, quiet, noLate, before, idxRange⟩
  · -- stopCall
    split at hs
    · injection hs with hs; subst hs
      exact ⟨once, closed, quiet, noLate, before, idxRange⟩
    · cases hs
  · -- recvCancel
    split at hs
    · rename_i hc
      injection hs with hs; subst hs
      refine ⟨?_, fun _ => rfl, fun _ => rfl, noLate, ?_, idxRange⟩
      · simp only; rw [hc.1] at once; simp at once ⊢
        cases htp : s.tickPending <;> simp [htp] at once <;> omega
      · intro hq; cases hq
    · cases hs
  · -- stopReturn
    split at hs
    · rename_i hc
      injection hs with hs; subst hs
      have hex := closed hc.2.1
      refine ⟨once, closed, fun _ => hex, ?_, before, idxRange⟩
      simp only [hex]
      exact ⟨noLate.1, by simp⟩
    · cases hs

theorem C18_reachable (n : Nat) (evs : List Ev) : ∀ (s s' : State), Inv s → run false n s evs = some s' → Inv s' := by
  induction evs with
  | nil => intro s s' h hr; simp only [run] at hr; injection hr with hr; subst hr; exact h
  | cons e es ih =>
    intro s s' h hr
    simp only [run] at hr
    split at hr
    · cases hr
    · rename_i s1 hs1
      exact ih s1 s' (inv_step n s s1 e h hs1) hr

/-- C18 (only after Start, at most once per tick): in every reachable state the number of
invocations is at most the number of ticks that became due, and 0 before Start. -/
theorem C18_once_per_tick (n : Nat) (evs : List Ev) (s : State) (h : run false n {} evs = some s) :
    s.calls ≤ s.ticksDue ∧ (s.phase = .notStarted → s.calls = 0) := by
  have inv := C18_reachable n evs {} s inv_init h
  have := inv.once
  exact ⟨by omega, inv.before⟩

/-- C18 (quiescent after Stop): once Stop has returned the function is not executing, it is never
invoked again, and the runner's goroutine is gone — for every placement of Stop relative to ticks,
timers, restarts and invocations in flight. -/
theorem C18_quiescent (n : Nat) (evs : List Ev) (s : State) (h : run false n {} evs = some s)
    (hs : s.stopReturned = true) :
    s.phase = .exited ∧ s.callsAfterStop = 0 ∧ s.inFnAtStopReturn = false ∧ alive s = false := by
  have inv := C18_reachable n evs {} s inv_init h
  have hq := inv.quiet hs
  exact ⟨hq, inv.noLate.1, inv.noLate.2, by simp [alive, hq]⟩

/-- after Stop has returned no invocation event is possible at all -/
theorem C18_no_call_after_stop (n : Nat) (evs : List Ev) (s : State) (h : run false n {} evs = some s)
    (hs : s.stopReturned = true) : step false n s .fnCall = none ∧ step false n s .recvTick = none := by
  have hq := (C18_quiescent n evs s h hs).1
  simp [step, hq]

/-- C18 (no leak, progress): after cancellation (by Stop or by the caller) the goroutine can always
take its exit as soon as it is back at the select; Stop can then return. -/
theorem C18_no_leak (n : Nat) (s : State) (hc : s.cancelled = true) (hi : s.phase = .idle) :
    ∃ s', step false n s .recvCancel = some s' ∧ s'.phase = .exited ∧ s'.stoppedClosed = true := by
  simp [step, hc, hi]

/-- schedule walk: the timer moves to the next schedule, Restart goes back to the first -/
theorem C18_schedule_walk (n : Nat) (s : State) :
    (∀ s', step false n s .recvTimer = some s' → s.idx + 1 < n → s'.idx = s.idx + 1) ∧
    (∀ s', step false n s .recvRestart = some s' → 0 < n → s'.idx = 0) := by
  constructor
  · intro s' h hlt
    simp only [step] at h
    split at h
    · injection h with h; subst h
      have : ¬ (s.idx + 1 ≥ (n : Int)) := by omega
      simp [startSchedule, this]
    · cases h
  · intro s' h hn
    simp only [step] at h
    split at h
    · injection h with h; subst h
      have : n ≠ 0 := by omega
      simp [startSchedule, this]
    · cases h

/-- The pinned tree closed `stopped` when `Start` returned: Stop returns while a due tick is being
dispatched, and the function is invoked afterwards. -/
theorem legacy_stop_does_not_wait :
    ∃ s, run true 1 {} [.start, .timerDue, .recvTimer, .tickDue, .recvTick, .stopCall, .stopReturn, .fnCall] = some s ∧
      s.stopReturned = true ∧ s.callsAfterStop = 1 ∧ s.inFnAtStopReturn = true := ⟨_, rfl, by decide⟩

-- non-vacuity: a run with two invocations, a restart and a Stop that has to wait for the function
example : ∃ s, run false 2 {} [.start, .timerDue, .recvTimer, .tickDue, .recvTick, .fnCall, .fnReturn, .restartCall,
    .recvRestart, .tickDue, .recvTick, .fnCall, .stopCall, .fnReturn, .recvCancel, .stopReturn] = some s ∧
    s.calls = 2 ∧ s.stopReturned = true := ⟨_, rfl, by decide⟩

end F1.Props.C18
