/-
C07 — failures and panics are contained in their iteration and classified correctly.
-/
import F1Verif.Props.Handle
namespace F1.Props.C07
open F1.Handle F1.Props.Handle

/-- reported failed ⇔ the executed part of the body marks failure (Fail, Error*, FailNow, Fatal*,
a failed assertion) or panics with any value -/
theorem C07_classified (cl : Nat → Prog) (bodies : List Prog) (iter : Nat) (t : T) (l : List Ev) :
    (runIter cl bodies iter t l).2.2 = compsMark bodies :=
  Handle.C07_classified cl bodies iter t l

/-- every stopping action (FailNow, Fatal, failed assertion, panic of any kind) marks failure -/
theorem C07_stop_marks (a : Act) (h : a.stops = true) : a.marks = true := by
  cases a <;> simp_all [Act.stops, Act.marks]

/-- a body whose executed part contains any failure API or panic is reported failed -/
theorem C07_any_failure_reported (cl : Nat → Prog) (p : Prog) (iter : Nat) (t : T) (l : List Ev)
    (a : Act) (ha : a ∈ executed p) (hm : a.marks = true) :
    (runIter cl [p] iter t l).2.2 = true := by
  rw [Handle.C07_classified]
  unfold compsMark executedComps
  have : marksFailure p = true := by
    unfold marksFailure; exact List.any_eq_true.mpr ⟨a, ha, hm⟩
  split <;> simp [executedComps, this]

/-- a body that calls none of them is reported passed -/
theorem C07_pass_reported (cl : Nat → Prog) (p : Prog) (iter : Nat) (t : T) (l : List Ev)
    (h : ∀ a ∈ executed p, a.marks = false) : (runIter cl [p] iter t l).2.2 = false := by
  rw [Handle.C07_classified]
  unfold compsMark executedComps
  have : marksFailure p = false := by
    unfold marksFailure
    rw [List.any_eq_false]
    intro a ha; simp [h a ha]
  split <;> simp [executedComps, this]

theorem C07_independent (cl : Nat → Prog) (bodies : List Prog) (iter : Nat) (t t' : T) (l l' : List Ev) :
    (runIter cl bodies iter t l).2.2 = (runIter cl bodies iter t' l').2.2 :=
  Handle.C07_independent cl bodies iter t t' l l'

theorem C07_contained (t : T) : t.reset.failed = false ∧ t.reset.teardownFailed = false ∧
    t.reset.tearingDown = false ∧ t.reset.stack = [] :=
  Handle.C07_contained t

/-- over a whole per-worker history each iteration is reported by its own outcome -/
theorem C07_history (sc : Scenario) (iters : Nat) (h : (runAll sc iters).setupFailed = false) :
    (runAll sc iters).outcomes = (List.range iters).map fun j => compsMark (sc.bodies (1 + j)) :=
  Handle.C07_history sc iters h

-- non-vacuity: fail / pass / panic / pass on one worker
example : (runAll ⟨[[]], fun i => if i = 1 then [[.fail]] else if i = 3 then [[.panic .rt]] else [[.log 0]],
    fun _ => []⟩ 4).outcomes = [true, false, true, false] := by decide

end F1.Props.C07
