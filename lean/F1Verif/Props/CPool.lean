/-
C03 / C04 for the users mode (continuous pool): never more than `W` iterations in flight, all `W` usable, at most
`limit` iterations, and exactly `limit` when nothing but the limit stopped the pool.
-/
import F1Verif.Model.ContinuousPool

namespace F1.Props.CPool
open F1.CPool

def bC : Bool → Nat | false => 0 | true => 1
theorem bC_true (a : Bool) : a = true ↔ bC a = 1 := by cases a <;> simp [bC]
theorem bC_false (a : Bool) : a = false ↔ bC a = 0 := by cases a <;> simp [bC]
theorem bC_le (a : Bool) : bC a ≤ 1 := by cases a <;> simp [bC]
theorem bC_t : bC true = 1 := rfl
theorem bC_f : bC false = 0 := rfl

structure Inv (s : State) : Prop where
  workers : s.idle + s.running + s.gone = s.W
  flight  : s.finished + s.running = s.started
  count   : (s.limit = 0 → s.started = s.counter) ∧ (s.limit > 0 → s.started = min s.counter s.limit)
  stopReq : bC s.stop ≤ bC s.cancelReq
  reqWhy  : bC s.cancelReq = 1 → bC s.ext = 1 ∨ (s.limit > 0 ∧ s.counter > s.limit)
  goneWhy : s.gone > 0 → bC s.stop = 1 ∨ (s.limit > 0 ∧ s.counter > s.limit)

theorem inv_init (W limit : Nat) : Inv (init W limit) := by
  refine ⟨by simp [init], by simp [init], ⟨by simp [init], by simp [init]⟩, by simp [init, bC], ?_, ?_⟩ <;>
    simp [init, bC]

theorem inv_step (s s' : State) (e : Ev) (h : Inv s) (hs : step s e = some s') : Inv s' := by
  obtain ⟨h1, h2, ⟨h3a, h3b⟩, h4, h5, h6⟩ := h
  have b1 := bC_le s.stop; have b2 := bC_le s.cancelReq; have b3 := bC_le s.ext
  cases e <;> simp only [step] at hs
  · -- take
    split at hs
    · rename_i hc
      obtain ⟨hi, hst⟩ := hc
      rw [bC_false] at hst
      split at hs
      · rename_i hl
        cases hs
        refine ⟨by simp only; omega, by simp only; omega,
          ⟨fun h0 => by simp only at h0 ⊢; omega, fun hp => by simp only at hp ⊢; have := h3b hp; omega⟩,
          by simp only [bC_t]; omega, fun _ => Or.inr (by simp only; omega), fun _ => Or.inr (by simp only; omega)⟩
      · rename_i hl
        cases hs
        refine ⟨by simp only; omega, by simp only; omega, ⟨fun h0 => by simp only at h0 ⊢; have := h3a h0; omega,
          fun hp => by simp only at hp ⊢; have := h3b hp; omega⟩, h4, ?_, ?_⟩
        · intro hr; rcases h5 hr with a | a
          · exact Or.inl a
          · exact Or.inr (by simp only; omega)
        · intro hg; rcases h6 hg with a | a
          · exact Or.inl a
          · exact Or.inr (by simp only; omega)
    · cases hs
  · -- finish
    split at hs
    · cases hs
      exact ⟨by simp only; omega, by simp only; omega, ⟨h3a, h3b⟩, h4, h5, h6⟩
    · cases hs
  · -- exit
    split at hs
    · rename_i hc
      obtain ⟨hi, hst⟩ := hc
      rw [bC_true] at hst
      cases hs
      exact ⟨by simp only; omega, h2, ⟨h3a, h3b⟩, h4, h5, fun _ => Or.inl hst⟩
    · cases hs
  · -- cancelExt
    cases hs
    exact ⟨h1, h2, ⟨h3a, h3b⟩, by simp only [bC_t]; omega, fun _ => Or.inl (by simp only [bC_t]), h6⟩
  · -- watch
    split at hs
    · rename_i hc
      obtain ⟨hr, _⟩ := hc
      rw [bC_true] at hr
      cases hs
      exact ⟨h1, h2, ⟨h3a, h3b⟩, by simp only [bC_t]; omega, h5, fun _ => Or.inl (by simp only [bC_t])⟩
    · cases hs

theorem reachable (W limit : Nat) (evs : List Ev) :
    ∀ (s : State), run (init W limit) evs = some s → Inv s := by
  have key : ∀ (evs : List Ev) (a b : State), Inv a → run a evs = some b → Inv b := by
    intro evs
    induction evs with
    | nil => intro a b h hr; simp only [run] at hr; cases hr; exact h
    | cons e es ih =>
      intro a b h hr
      simp only [run] at hr
      split at hr
      · cases hr
      · rename_i s1 hs1
        exact ih s1 b (inv_step a s1 e h hs1) hr
  intro s h
  exact key evs _ s (inv_init W limit) h

theorem run_W (evs : List Ev) : ∀ (a b : State), run a evs = some b → b.W = a.W ∧ b.limit = a.limit := by
  induction evs with
  | nil => intro a b h; simp only [run] at h; cases h; exact ⟨rfl, rfl⟩
  | cons e es ih =>
    intro a b h
    simp only [run] at h
    split at h
    · cases h
    · rename_i s1 hs1
      obtain ⟨h1, h2⟩ := ih s1 b h
      have : s1.W = a.W ∧ s1.limit = a.limit := by
        cases e <;> simp only [step] at hs1 <;> (repeat' split at hs1) <;> cases hs1 <;> exact ⟨rfl, rfl⟩
      exact ⟨h1.trans this.1, h2.trans this.2⟩

/-- C04 (users mode): in every reachable state at most `W` iterations are executing, every iteration that started
has finished or is executing, and the pool still consists of its `W` workers. -/
theorem C04_users_bound (W limit : Nat) (evs : List Ev) (s : State) (h : run (init W limit) evs = some s) :
    s.running ≤ W ∧ s.finished + s.running = s.started ∧ s.idle + s.running + s.gone = W := by
  have inv := reachable W limit evs s h
  have hw := (run_W evs _ s h).1
  simp only [init] at hw
  exact ⟨by have := inv.workers; omega, inv.flight, by have := inv.workers; omega⟩

/-- C04 (users mode, "always"): a worker at the loop test can start an iteration whenever the pool has not been
stopped — no request has to be pending, no wake-up can be lost. -/
theorem C04_users_take_enabled (s : State) (hi : s.idle > 0) (hs : s.stop = false) : ∃ s', step s .take = some s' := by
  simp only [step, hi, hs, and_self, if_true]
  split <;> exact ⟨_, rfl⟩

/-- C03 (ceiling): with a limit `N > 0` at most `N` iterations start, whatever the schedule. -/
theorem C03_users_ceiling (W N : Nat) (hN : 0 < N) (evs : List Ev) (s : State) (h : run (init W N) evs = some s) :
    s.started ≤ N := by
  have inv := reachable W N evs s h
  have hl := (run_W evs _ s h).2
  simp only [init] at hl
  have := inv.count.2 (by omega)
  omega

/-- C03 (exactly N): when every worker has returned and nothing but the limit stopped the pool (no cancellation from
outside), exactly `N` iterations have started — and there is a limit. -/
theorem C03_users_exact (W N : Nat) (hW : 0 < W) (evs : List Ev) (s : State) (h : run (init W N) evs = some s)
    (hgone : s.gone = W) (hext : s.ext = false) : 0 < N ∧ s.started = N := by
  have inv := reachable W N evs s h
  obtain ⟨hw, hl⟩ := run_W evs _ s h
  simp only [init] at hw hl
  rw [bC_false] at hext
  have b1 := bC_le s.stop; have b2 := bC_le s.cancelReq
  have hg := inv.goneWhy (by omega)
  have hlim : s.limit > 0 ∧ s.counter > s.limit := by
    rcases hg with a | a
    · have : bC s.cancelReq = 1 := by have := inv.stopReq; omega
      rcases inv.reqWhy this with b | b
      · omega
      · exact b
    · exact a
  have := inv.count.2 hlim.1
  exact ⟨by omega, by omega⟩

-- non-vacuity: three users, limit 4: four iterations start, the fifth call is refused and stops the pool
example : ∃ s, run (init 3 4) [.take, .take, .take, .finish, .take, .finish, .take, .watch, .finish, .finish, .exit, .exit] = some s ∧
    s.gone = 3 ∧ s.ext = false ∧ s.started = 4 := ⟨_, rfl, by decide⟩

end F1.Props.CPool
