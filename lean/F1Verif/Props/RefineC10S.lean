/- C10 — the regenerated `RateCalculator.Rate` (staged profile) refines the calculator model: cursor loop and interpolation -/
import F1Verif.Props.RefineC10

namespace F1.Props.Refine
open F1.MiniGo F1.Generated.MG F1.Staged

section staged
variable {F : Type} [FloatLike F]

/-- a `Stage` struct as the code sees it -/
def stageRec (st : Stage) : List (String × Val F) :=
  [("StartTarget", .int st.s), ("EndTarget", .int st.e), ("Duration", .int st.d)]

/-- the calculator between calls: cursor `cur`, start of the current stage, the (chained) stage list; `now` is the argument -/
def calcState (stages : List Stage) (cur start now : Int) : State F :=
  ⟨[("recv.current", .int cur), ("recv.start", .int start), ("arg0", .int now)], [], [], [],
   [("recv.stages", stages.map stageRec)]⟩

def noExtF : Ext F := fun _ _ _ => .nil

/-- the loop of `Rate`: `for current < len(stages) && now.Sub(start)+1 > stages[current].Duration { start += …; current++ }` -/
def rateLoop : Stmt :=
  (.while (.bin .land (.bin .lt (.var "recv.current") (.len "recv.stages")) (.bin .gt (.bin .add (.builtin2 "Sub" (.var "arg0") (.var "recv.start")) (.int 1)) (.index "recv.stages" (.var "recv.current") "Duration")))
  (.seq (.assign "recv.start" (.builtin2 "Add" (.var "recv.start") (.index "recv.stages" (.var "recv.current") "Duration")))
  (.assign "recv.current" (.bin .add (.var "recv.current") (.int 1)))))

omit [FloatLike F] in
theorem getElem_mid (pre : List Stage) (st : Stage) (rest : List Stage) :
    ((pre ++ st :: rest).map (stageRec (F := F)))[pre.length]? = some (stageRec st) := by
  simp

theorem skip_length_le : ∀ (l : List Stage) (start now : Int), (skip l start now).1.length ≤ l.length
  | [], _, _ => by simp [skip]
  | st :: rest, start, now => by
    unfold skip
    split
    · have := skip_length_le rest (start + st.d) now
      simp; omega
    · simp

theorem skip_suffix : ∀ (l : List Stage) (start now : Int), ∃ taken, l = taken ++ (skip l start now).1
  | [], _, _ => ⟨[], by simp [skip]⟩
  | st :: rest, start, now => by
    unfold skip
    split
    · obtain ⟨t, ht⟩ := skip_suffix rest (start + st.d) now
      exact ⟨st :: t, by simp [← ht]⟩
    · exact ⟨[], by simp⟩

/-- the cursor loop is the model's `skip`: it leaves the cursor on the first stage that has not elapsed at `now` and
the start time on that stage's start -/
theorem rateLoop_skip (now : Int) : ∀ (rest pre : List Stage) (start : Int) (fuel : Nat), rest.length + 1 ≤ fuel →
    exec (noExtF (F := F)) fuel rateLoop (calcState (pre ++ rest) pre.length start now) =
      .normal (calcState (pre ++ rest) ((pre.length : Int) + (rest.length - (skip rest start now).1.length : Nat))
        (skip rest start now).2 now)
  | [], pre, start, fuel, hf => by
    obtain ⟨f, rfl⟩ : ∃ f, fuel = f + 1 := ⟨fuel - 1, by simp at hf; omega⟩
    simp [minigo, rateLoop, calcState, skip]
  | st :: rest, pre, start, fuel, hf => by
    obtain ⟨f, rfl⟩ : ∃ f, fuel = f + 1 := ⟨fuel - 1, by simp at hf; omega⟩
    have ih := rateLoop_skip now rest (pre ++ [st]) (start + st.d) f (by simp at hf ⊢; omega)
    simp only [List.append_assoc, List.singleton_append, List.length_append, List.length_singleton] at ih
    have hl := skip_length_le rest (start + st.d) now
    have h1 : (pre.length : Int) < pre.length + ((rest.length : Int) + 1) := by omega
    have h2 : ¬ ((pre.length : Int) < 0) := by omega
    simp [rateLoop, calcState, stageRec] at ih
    by_cases hc : st.d < now - start + 1
    · have hs : skip (st :: rest) start now = skip rest (start + st.d) now := by
        simp [skip]; omega
      simp [minigo, rateLoop, calcState, stageRec, hc, ih, hs, h1, h2]
      omega
    · have hs : skip (st :: rest) start now = (st :: rest, start) := by
        simp [skip]; omega
      simp [minigo, rateLoop, calcState, stageRec, hc, hs, h1, h2]

/-- one call of the regenerated `RateCalculator.Rate`, in any arithmetic, on a calculator whose cursor stands after the
stages `pre` (or which has not been queried yet: `fresh`, cursor −1, start time 0 unless one was given): it returns what
the model's `Calc.rateWith` returns on the remaining stages `rest`, and leaves cursor and start time on the stage the
model's new state begins with -/
theorem staged_Rate_refines (pre rest : List Stage) (fresh : Bool) (start now : Int) (fuel : Nat)
    (hf : rest.length + 1 ≤ fuel) (hfresh : fresh = true → pre = []) :
    let cur : Int := if fresh then -1 else pre.length
    let c : Calc := ⟨rest, if fresh = true ∧ start = 0 then none else some start⟩
    observe (runFn (noExtF (F := F)) fuel staged_Rate (calcState (pre ++ rest) cur start now)) ["recv.current", "recv.start"] =
      some ([.int (c.rateWith (interpG (F := F)) now).1],
            [some (.int (((pre ++ rest).length : Int) - (c.rateWith (interpG (F := F)) now).2.rest.length)),
             some (.int ((c.rateWith (interpG (F := F)) now).2.start.getD 0))]) := by
  intro cur c
  have key : ∀ (start' : Int), rest.length + 1 ≤ fuel →
      observe (finish ((exec (noExtF (F := F)) fuel rateLoop (calcState (pre ++ rest) pre.length start' now)).andThen fun s1 =>
        exec noExtF fuel
          ((Stmt.ite (Expr.bin BinOp.gt (Expr.var "recv.current") (Expr.bin BinOp.sub (Expr.len "recv.stages") (Expr.int 1)))
              (Stmt.ret1 (Expr.int 0)) Stmt.skip).seq
            ((Stmt.assign "offset" (Expr.builtin2 "Sub" (Expr.var "arg0") (Expr.var "recv.start"))).seq
              ((Stmt.assign "position" (Expr.bin BinOp.quo (Expr.conv "float64" (Expr.var "offset"))
                  (Expr.conv "float64" (Expr.index "recv.stages" (Expr.var "recv.current") "Duration")))).seq
                ((Stmt.assign "rate" (Expr.bin BinOp.add (Expr.index "recv.stages" (Expr.var "recv.current") "StartTarget")
                    (Expr.conv "int" (Expr.bin BinOp.mul (Expr.var "position") (Expr.conv "float64"
                      (Expr.bin BinOp.sub (Expr.index "recv.stages" (Expr.var "recv.current") "EndTarget")
                        (Expr.index "recv.stages" (Expr.var "recv.current") "StartTarget"))))))).seq
                  (Stmt.ret1 (Expr.var "rate")))))) s1)) ["recv.current", "recv.start"] =
      (match (skip rest start' now).1 with
       | [] => some ([.int 0], [some (.int ((pre ++ rest).length)), some (.int (skip rest start' now).2)])
       | st :: rem => some ([.int (interpG (F := F) st (now - (skip rest start' now).2))],
            [some (.int (((pre ++ rest).length : Int) - (st :: rem).length)), some (.int (skip rest start' now).2)])) := by
    intro start' hf'
    rw [rateLoop_skip (F := F) now rest pre start' fuel hf']
    obtain ⟨taken, hrest⟩ := skip_suffix rest start' now
    generalize hsk : skip rest start' now = sk at *
    subst hrest
    rcases hrem : sk.1 with _ | ⟨st, rem⟩
    · have h2 : ¬ ((pre.length : Int) + taken.length - 1 < pre.length + taken.length - 1) := by omega
      simp [minigo, calcState, stageRec, hrem]
      omega
    · have h3 : ¬ ((pre.length : Int) + (taken.length + (rem.length + 1)) - 1 < pre.length + taken.length) := by omega
      have h4 : ¬ ((pre.length : Int) + taken.length < 0) := by omega
      have hidx : ∀ (x : List (String × Val F)), (List.map stageRec pre ++ (List.map stageRec taken ++ x :: List.map stageRec rem))[
          ((pre.length : Int) + taken.length).toNat]? = some x := by
        intro x
        have : ((pre.length : Int) + taken.length).toNat = pre.length + taken.length := by omega
        rw [this]
        simp [List.getElem?_append_right]
      simp [minigo, calcState, stageRec, hrem, h3, h4, hidx, interpG]
      omega
  simp only [rateLoop, calcState] at key
  have hp : ¬ ((pre.length : Int) < 0) := by omega
  cases fresh
  · have k := key start hf
    by_cases hlast : (pre.length : Int) + rest.length - 1 < pre.length
    · -- every stage is over: the early return
      have hr : rest = [] := by
        cases rest with
        | nil => rfl
        | cons a l => simp at hlast; omega
      subst hr
      have hx : ¬ ((pre.length : Int) ≤ pre.length - 1) := by omega
      simp [minigo, staged_Rate, calcState, stageRec, cur, c, Calc.rateWith, hp, skip, hx]
    · simp [minigo, staged_Rate, calcState, stageRec, cur, c, Calc.rateWith, hp, hlast]
      simp only [List.map_append] at k
      rw [k]
      rcases hsk : (skip rest start now).1 with _ | ⟨st, rem⟩ <;> simp [hsk]
  · have hpre : pre = [] := hfresh rfl
    subst hpre
    by_cases h0 : start = 0
    · have k := key now hf
      by_cases hlast : ((0 : Int) + rest.length - 1 < 0)
      · have hr : rest = [] := by
          cases rest with
          | nil => rfl
          | cons a l => simp at hlast; omega
        subst hr
        simp [minigo, staged_Rate, calcState, stageRec, cur, c, Calc.rateWith, skip, h0]
      · simp at hlast
        have hl2 : ¬ ((rest.length : Int) - 1 < 0) := by omega
        simp [minigo, staged_Rate, calcState, stageRec, cur, c, Calc.rateWith, h0, hl2]
        simp only [List.map_append, List.nil_append, List.map_nil, List.length_nil, Int.natCast_zero] at k
        rw [k]
        rcases hsk : (skip rest now now).1 with _ | ⟨st, rem⟩ <;> simp [hsk]
    · have k := key start hf
      by_cases hlast : ((0 : Int) + rest.length - 1 < 0)
      · have hr : rest = [] := by
          cases rest with
          | nil => rfl
          | cons a l => simp at hlast; omega
        subst hr
        simp [minigo, staged_Rate, calcState, stageRec, cur, c, Calc.rateWith, skip, h0]
      · simp at hlast
        have hl2 : ¬ ((rest.length : Int) - 1 < 0) := by omega
        simp [minigo, staged_Rate, calcState, stageRec, cur, c, Calc.rateWith, h0, hl2]
        simp only [List.map_append, List.nil_append, List.map_nil, List.length_nil, Int.natCast_zero] at k
        rw [k]
        rcases hsk : (skip rest start now).1 with _ | ⟨st, rem⟩ <;> simp [hsk]

end staged
end F1.Props.Refine
