/-
C13 — step 2: in exact arithmetic the step `jitterStepG` the regenerated closure was shown to be (Props/RefineC13) is an
*admissible* step in the sense of Props/C13 — the relation `C13_telescope` / `C13_bounded` are proved about — for every
cosine value in `[−1, 1]`, with no rounding slack; and the balance it carries is the integer `requested − handed out`.
-/
import F1Verif.Props.RefineC13
import F1Verif.Props.C13
import Mathlib.Data.Rat.Floor
import Mathlib.Algebra.Order.Floor.Ring

namespace F1.Props.Refine
open F1.MiniGo F1.Props.C13

theorem ratRound_close (q : ℚ) : |((ratRound q : ℤ) : ℚ) - q| ≤ 1 / 2 := by
  unfold ratRound
  by_cases h : q ≥ 0
  · rw [if_pos h, rat_floor_eq']
    have h1 := Int.floor_le (q + 1 / 2)
    have h2 := Int.lt_floor_add_one (q + 1 / 2)
    rw [abs_le]; constructor <;> linarith
  · rw [if_neg h, rat_floor_eq']
    have h1 := Int.floor_le (-q + 1 / 2)
    have h2 := Int.lt_floor_add_one (-q + 1 / 2)
    push_cast
    rw [abs_le]; constructor <;> linarith
where rat_floor_eq' (q : ℚ) : q.floor = ⌊q⌋ := rfl

theorem ratRound_nonneg (q : ℚ) (h : 0 ≤ q) : 0 ≤ ratRound q := by
  unfold ratRound
  rw [if_pos h]
  show 0 ≤ ⌊q + 1 / 2⌋
  exact Int.floor_nonneg.mpr (by linarith)

theorem ratRound_nonpos (q : ℚ) (h : q ≤ 0) : ratRound q ≤ 0 := by
  unfold ratRound
  by_cases h0 : q ≥ 0
  · have : q = 0 := le_antisymm h h0
    subst this
    rw [if_pos (le_refl _)]
    show ⌊(0:ℚ) + 1 / 2⌋ ≤ 0
    have : ⌊(0:ℚ) + 1 / 2⌋ = 0 := by rw [Int.floor_eq_iff]; norm_num
    omega
  · rw [if_neg h0]
    have : 0 ≤ ⌊-q + 1 / 2⌋ := Int.floor_nonneg.mpr (by linarith)
    show -(⌊-q + 1 / 2⌋) ≤ 0
    omega

/-- in exact arithmetic, with an integer balance `b`, jitter `j ∈ [0, 100]` percent and any cosine `c ∈ [−1, 1]`:
the step hands out `max 0 (round (req·(1 + c·j/100)))`, carries `req − out`, and is admissible with slack 0 -/
theorem jitterStepG_rat (j c : ℚ) (hj0 : 0 ≤ j) (hj1 : j ≤ 100) (hc : |c| ≤ 1) (r b : ℤ) :
    let s := jitterStepG (F := Rat) j r (b : ℚ) c
    s.1 = (((r + b - s.2 : ℤ)) : ℚ) ∧ Admissible (j / 100) 0 (r + b) s.2 := by
  intro s
  have hc' := abs_le.mp hc
  set p : ℚ := ((r : ℚ) + b) * (1 + c * j / 100) with hp
  have hout : s.2 = max 0 (ratRound p) := by
    show FloatLike.trunc (FloatLike.max (FloatLike.ofInt 0 : ℚ) (FloatLike.round (FloatLike.mul
      (FloatLike.add (FloatLike.ofInt r) (b : ℚ)) (FloatLike.add (FloatLike.ofInt 1) (FloatLike.div (FloatLike.mul c j) (FloatLike.ofInt 100)))))) = _
    simp only [FloatLike.trunc, FloatLike.max, FloatLike.ofInt, FloatLike.round, FloatLike.mul, FloatLike.add, FloatLike.div]
    have e : ((r:ℚ) + b) * (((1:ℤ):ℚ) + c * j / ((100:ℤ):ℚ)) = p := by rw [hp]; push_cast; ring
    rw [e]
    by_cases hr : ((0:ℤ):ℚ) < ((ratRound p : ℤ) : ℚ)
    · rw [if_pos hr]
      have hr' : 0 < ratRound p := by exact_mod_cast hr
      have hnn : ((ratRound p : ℤ) : ℚ) ≥ 0 := by exact_mod_cast le_of_lt hr'
      rw [if_pos hnn]
      show ⌊((ratRound p : ℤ) : ℚ)⌋ = _
      rw [Int.floor_intCast]; omega
    · rw [if_neg hr]
      have hr' : ratRound p ≤ 0 := by
        by_contra hcon; rw [not_le] at hcon; exact hr (by exact_mod_cast hcon)
      rw [if_pos (by norm_num : ((0:ℤ):ℚ) ≥ 0)]
      show ⌊((0:ℤ):ℚ)⌋ = _
      rw [Int.floor_intCast]; omega
  have hbal : s.1 = ((r:ℚ) + b) - ((max 0 (ratRound p) : ℤ) : ℚ) := by
    show FloatLike.sub (FloatLike.add (FloatLike.ofInt r) (b : ℚ)) (FloatLike.max (FloatLike.ofInt 0 : ℚ) (FloatLike.round (FloatLike.mul
      (FloatLike.add (FloatLike.ofInt r) (b : ℚ)) (FloatLike.add (FloatLike.ofInt 1) (FloatLike.div (FloatLike.mul c j) (FloatLike.ofInt 100)))))) = _
    simp only [FloatLike.sub, FloatLike.max, FloatLike.ofInt, FloatLike.round, FloatLike.mul, FloatLike.add, FloatLike.div]
    have e : ((r:ℚ) + b) * (((1:ℤ):ℚ) + c * j / ((100:ℤ):ℚ)) = p := by rw [hp]; push_cast; ring
    rw [e]
    by_cases hr : ((0:ℤ):ℚ) < ((ratRound p : ℤ) : ℚ)
    · rw [if_pos hr]
      have hr' : 0 < ratRound p := by exact_mod_cast hr
      rw [max_eq_right (le_of_lt hr')]
    · rw [if_neg hr]
      have hr' : ratRound p ≤ 0 := by
        by_contra hcon; rw [not_le] at hcon; exact hr (by exact_mod_cast hcon)
      rw [max_eq_left hr']
  have hfac : 0 ≤ 1 + c * j / 100 := by nlinarith [hc'.1, hc'.2]
  refine ⟨by rw [hbal, hout]; push_cast; ring, ?_, ?_, ?_⟩
  · rw [hout]; exact le_max_left _ _
  · intro hreq
    have hp0 : p ≤ 0 := by
      rw [hp]; apply mul_nonpos_of_nonpos_of_nonneg _ hfac
      exact_mod_cast hreq
    rw [hout, max_eq_left (ratRound_nonpos p hp0)]
  · intro hreq
    have hreqq : (0:ℚ) < (r:ℚ) + b := by exact_mod_cast hreq
    have hp0 : 0 ≤ p := by rw [hp]; exact mul_nonneg (le_of_lt hreqq) hfac
    rw [hout, max_eq_right (ratRound_nonneg p hp0)]
    have h1 := ratRound_close p
    have h2 : |p - ((r:ℚ) + b)| ≤ j / 100 * ((r:ℚ) + b) := by
      have : p - ((r:ℚ) + b) = ((r:ℚ) + b) * (c * j / 100) := by rw [hp]; ring
      rw [this, abs_mul, abs_of_pos hreqq, abs_div, abs_mul, abs_of_nonneg hj0]
      have : |c| * j / |(100:ℚ)| ≤ j / 100 := by
        rw [abs_of_pos (by norm_num : (0:ℚ) < 100)]
        apply div_le_div_of_nonneg_right _ (by norm_num : (0:ℚ) ≤ 100)
        nlinarith
      nlinarith
    push_cast
    calc |((ratRound p : ℤ) : ℚ) - ((r:ℚ) + b)| = |(((ratRound p : ℤ) : ℚ) - p) + (p - ((r:ℚ) + b))| := by ring_nf
      _ ≤ |((ratRound p : ℤ) : ℚ) - p| + |p - ((r:ℚ) + b)| := abs_add_le _ _
      _ ≤ j / 100 * ((r:ℚ) + b) + 1 / 2 + 0 := by linarith

/-! ### whole runs of the regenerated closure -/

/-- the balance the closure carries into tick `k` and what it hands out at tick `k`, in exact arithmetic, for the rate
sequence `rates` and the cosine values `cs` (the state of the closure between calls is exactly this balance:
`jitter_body_refines`) -/
def genBal (j : ℚ) (rates : ℕ → ℤ) (cs : ℕ → ℚ) : ℕ → ℤ
  | 0 => 0
  | k + 1 => rates k + genBal j rates cs k - (jitterStepG (F := Rat) j (rates k) (genBal j rates cs k : ℚ) (cs k)).2

def genOut (j : ℚ) (rates : ℕ → ℤ) (cs : ℕ → ℚ) (k : ℕ) : ℤ :=
  (jitterStepG (F := Rat) j (rates k) (genBal j rates cs k : ℚ) (cs k)).2

theorem genBal_eq_bal (j : ℚ) (rates : ℕ → ℤ) (cs : ℕ → ℚ) : ∀ k, bal rates (genOut j rates cs) k = genBal j rates cs k
  | 0 => rfl
  | k + 1 => by simp only [bal, genBal, genOut, genBal_eq_bal j rates cs k]

/-- the float balance the code holds really is that integer (so the next call starts from it) -/
theorem genBal_carried (j : ℚ) (hj0 : 0 ≤ j) (hj1 : j ≤ 100) (rates : ℕ → ℤ) (cs : ℕ → ℚ) (hc : ∀ k, |cs k| ≤ 1) (k : ℕ) :
    (jitterStepG (F := Rat) j (rates k) (genBal j rates cs k : ℚ) (cs k)).1 = ((genBal j rates cs (k + 1) : ℤ) : ℚ) := by
  have := (jitterStepG_rat j (cs k) hj0 hj1 (hc k) (rates k) (genBal j rates cs k)).1
  simpa [genBal] using this

/-- C13 about the code as it is now (exact arithmetic): along any run of the regenerated `WithJitter` closure — any rate
sequence in `[0, R]`, any random outcomes — nothing is lost (`Σ out = Σ rate − balance`) and, for jitter below 100 %,
the balance never leaves `±(j/100·R + 1/2)/(1 − j/100)` -/
theorem C13_generated_run (j R : ℚ) (hj0 : 0 ≤ j) (hj1 : j < 100) (rates : ℕ → ℤ) (cs : ℕ → ℚ)
    (hc : ∀ k, |cs k| ≤ 1) (hr : ∀ k, 0 ≤ rates k ∧ (rates k : ℚ) ≤ R) (n : ℕ) :
    (Finset.range n).sum (genOut j rates cs) = (Finset.range n).sum rates - genBal j rates cs n ∧
    |(genBal j rates cs n : ℚ)| ≤ (j / 100 * R + 1 / 2 + 0) / (1 - j / 100) := by
  have hstep : ∀ k, Admissible (j / 100) 0 (rates k + bal rates (genOut j rates cs) k) (genOut j rates cs k) := by
    intro k
    rw [genBal_eq_bal]
    exact (jitterStepG_rat j (cs k) hj0 (le_of_lt hj1) (hc k) (rates k) (genBal j rates cs k)).2
  refine ⟨?_, ?_⟩
  · rw [← genBal_eq_bal]; exact C13_telescope rates (genOut j rates cs) n
  · rw [← genBal_eq_bal]
    exact C13_bounded (j / 100) 0 R (by positivity) (by rw [div_lt_one (by norm_num)]; exact hj1) (le_refl 0) rates
      (genOut j rates cs) hr hstep n

end F1.Props.Refine
