/-
C12 — regenerated facts: the anchored functions still read as the model of C12 assumes.
`Generated.*` is rewritten from /repo's working tree on every run; `Expected.*` is what the model was written against.
-/
import F1Verif.Generated.Facts
import F1Verif.Expected
namespace F1.Props.FactsC12

-- (api_withRegularDistribution, api_withRandomDistribution: re-proved semantically on the regenerated MiniGo programs, see Props/Refine*.lean)

theorem fact_api_NewDistribution : F1.Generated.skel_api_NewDistribution = F1.Expected.skel_api_NewDistribution := by rfl

end F1.Props.FactsC12
