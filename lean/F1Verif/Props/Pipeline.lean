/-
End to end (C12 ∘ C13, and C12 alone): what the composed rate pipeline of a rate-driven trigger asks the pool for.

`rateFn → WithJitter → NewDistribution(regular|random) → NewIterationWorker` evaluates the (jittered) rate once per
cycle and hands its sub-tick values to the pool. Composing the per-component theorems:

* over any number of whole cycles the sub-tick values add up to exactly the sum of the values the underlying
  (jittered) rate produced, one per cycle — nothing is created or lost by distributing (`regular_total`,
  `random_total`);
* hence with jitter `a < 1` on rates in `[0, R]` the total requested over `c` cycles stays within the fixed bound
  `(a·R + 1/2 + δ)/(1 − a)` of `Σ r`, the load the profile spells — for every length of run and every outcome of the
  random source (`C12_C13_pipeline_total`); with zero jitter it is `Σ r` on the nose (`C12_C13_pipeline_exact`).
-/
import F1Verif.Props.C12
import F1Verif.Props.C13

namespace F1.Props.Pipeline
open F1.Dist F1.Jitter F1.Props.C12 F1.Props.C13

/-- regular distribution: the values of `c` whole cycles add up to the `c` rates evaluated, for any start state
between cycles -/
theorem regular_total (N : Nat) (hN : 0 < N) (hNS : N ≤ scale) (rates : Nat → Int) (hr : ∀ i, 0 ≤ rates i) :
    ∀ (c : Nat) (s : RegZ), s.remaining = 0 →
      (runZ N rates (c * N) s).2.sum = (Finset.range c).sum (fun i => rates (s.evals + i)) := by
  intro c
  induction c with
  | zero => intro s _; simp [runZ]
  | succ c ih =>
    intro s h0
    have hsplit : (c + 1) * N = c * N + N := by rw [Nat.add_mul, Nat.one_mul]
    rw [hsplit, runZ_add]
    simp only [List.sum_append]
    obtain ⟨hrem, hev, _, _⟩ := C12_regular_all_cycles N hN hNS rates hr c s h0
    rw [ih s h0, Finset.sum_range_succ]
    have := C12_regular_sum_envelope N hN hNS rates (runZ N rates (c * N) s).1 hrem (hr _)
    rw [this, hev]

/-- the same from the initial state: cycles `0 … c-1` -/
theorem regular_total_init (N : Nat) (hN : 0 < N) (hNS : N ≤ scale) (rates : Nat → Int) (hr : ∀ i, 0 ≤ rates i)
    (c : Nat) : (runZ N rates (c * N) RegZ.init).2.sum = (Finset.range c).sum rates := by
  have := regular_total N hN hNS rates hr c RegZ.init rfl
  simpa [RegZ.init] using this

/-! ### random distribution -/

theorem runRnd_add (N : Nat) (rates : Nat → Int) (rand : Nat → Int → Int) (a b : Nat) (s : Rnd) :
    runRnd N rates rand (a + b) s =
      ((runRnd N rates rand b (runRnd N rates rand a s).1).1,
       (runRnd N rates rand a s).2 ++ (runRnd N rates rand b (runRnd N rates rand a s).1).2) := by
  induction a generalizing s with
  | zero => simp [runRnd]
  | succ a ih =>
    have : a + 1 + b = (a + b) + 1 := by omega
    rw [this]
    simp only [runRnd, ih, List.cons_append]

/-- random distribution: the values of `c` whole cycles add up to the `c` rates evaluated — for every random
source with non-negative outcomes — the rate is evaluated exactly once per cycle and no value is negative -/
theorem random_total (N : Nat) (hN : 0 < N) (rates : Nat → Int) (rand : Nat → Int → Int)
    (hrand : ∀ d a, 0 ≤ rand d a) (hr : ∀ i, 0 ≤ rates i) :
    ∀ (c : Nat) (s : Rnd), s.remaining = 0 →
      (runRnd N rates rand (c * N) s).1.remaining = 0 ∧ (runRnd N rates rand (c * N) s).1.evals = s.evals + c ∧
      (∀ o ∈ (runRnd N rates rand (c * N) s).2, 0 ≤ o) ∧
      (runRnd N rates rand (c * N) s).2.sum = (Finset.range c).sum (fun i => rates (s.evals + i)) := by
  intro c
  induction c with
  | zero => intro s h0; simp [runRnd, h0]
  | succ c ih =>
    intro s h0
    have hsplit : (c + 1) * N = c * N + N := by rw [Nat.add_mul, Nat.one_mul]
    obtain ⟨hrem, hev, hnn, hsum⟩ := ih s h0
    obtain ⟨h1, h2, _, h4, h5⟩ := C12_random_cycle N hN rates rand hrand (runRnd N rates rand (c * N) s).1 hrem (hr _)
    rw [hsplit, runRnd_add]
    refine ⟨h1, by rw [h2, hev]; omega, ?_, ?_⟩
    · intro o ho
      rcases List.mem_append.mp ho with h | h
      · exact hnn o h
      · exact h4 o h
    · simp only [List.sum_append]
      rw [hsum, h5, hev, Finset.sum_range_succ]

/-- C12 ∘ C13: with jitter `a < 1` the total requested over `c` cycles is within the carry bound of the load the
profile spells, whatever the random outcomes and however long the run. `r` is the un-jittered rate per cycle, `out`
what `WithJitter` returned for it (any admissible outcome), which is what the distribution then spreads. -/
theorem C12_C13_pipeline_total (N : Nat) (hN : 0 < N) (hNS : N ≤ scale)
    (a δ R : ℚ) (ha0 : 0 ≤ a) (ha1 : a < 1) (hδ : 0 ≤ δ) (r out : ℕ → ℤ)
    (hr : ∀ k, 0 ≤ r k ∧ (r k : ℚ) ≤ R) (hstep : ∀ k, Admissible a δ (r k + bal r out k) (out k)) (c : ℕ) :
    |(((runZ N out (c * N) RegZ.init).2.sum - (Finset.range c).sum r : ℤ) : ℚ)| ≤ (a * R + 1 / 2 + δ) / (1 - a) := by
  have hout : ∀ i, 0 ≤ out i := fun i => C13_nonneg a δ _ _ (hstep i)
  rw [regular_total_init N hN hNS out hout c]
  exact C13_totals_close a δ R ha0 ha1 hδ r out hr hstep c

/-- the same through the random distribution, for every random source -/
theorem C12_C13_pipeline_total_random (N : Nat) (hN : 0 < N) (rand : Nat → Int → Int) (hrand : ∀ d a, 0 ≤ rand d a)
    (a δ R : ℚ) (ha0 : 0 ≤ a) (ha1 : a < 1) (hδ : 0 ≤ δ) (r out : ℕ → ℤ)
    (hr : ∀ k, 0 ≤ r k ∧ (r k : ℚ) ≤ R) (hstep : ∀ k, Admissible a δ (r k + bal r out k) (out k)) (c : ℕ) :
    |(((runRnd N out rand (c * N) Rnd.init).2.sum - (Finset.range c).sum r : ℤ) : ℚ)| ≤ (a * R + 1 / 2 + δ) / (1 - a) := by
  have hout : ∀ i, 0 ≤ out i := fun i => C13_nonneg a δ _ _ (hstep i)
  have h := (random_total N hN out rand hrand hout c Rnd.init rfl).2.2.2
  have h' : (runRnd N out rand (c * N) Rnd.init).2.sum = (Finset.range c).sum out := by
    rw [h]; simp [Rnd.init]
  rw [h']
  exact C13_totals_close a δ R ha0 ha1 hδ r out hr hstep c

/-- zero jitter: the total requested over `c` cycles is exactly the load the profile spells -/
theorem C12_C13_pipeline_exact (N : Nat) (hN : 0 < N) (hNS : N ≤ scale) (δ : ℚ) (hδ : δ < 1 / 2) (r out : ℕ → ℤ)
    (hr : ∀ k, 0 ≤ r k) (hstep : ∀ k, Admissible 0 δ (r k + bal r out k) (out k)) (c : ℕ) :
    (runZ N out (c * N) RegZ.init).2.sum = (Finset.range c).sum r := by
  have hid := C13_zero_identity δ hδ r out hr hstep
  have hout : ∀ i, 0 ≤ out i := fun i => by rw [(hid i).2]; exact hr i
  rw [regular_total_init N hN hNS out hout c]
  exact Finset.sum_congr rfl (fun i _ => (hid i).2)

end F1.Props.Pipeline
