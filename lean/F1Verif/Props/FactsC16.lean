/-
C16 — regenerated facts: the anchored functions still read as the model of C16 assumes.
`Generated.*` is rewritten from /repo's working tree on every run; `Expected.*` is what the model was written against.
-/
import F1Verif.Generated.Facts
import F1Verif.Expected
namespace F1.Props.FactsC16

theorem fact_metrics_labelValues : F1.Generated.skel_metrics_labelValues = F1.Expected.skel_metrics_labelValues := by rfl
theorem fact_metrics_labelKeys : F1.Generated.skel_metrics_labelKeys = F1.Expected.skel_metrics_labelKeys := by rfl
theorem fact_metrics_sortedKeys : F1.Generated.skel_metrics_sortedKeys = F1.Expected.skel_metrics_sortedKeys := by rfl
theorem fact_metrics_Reset : F1.Generated.skel_metrics_Reset = F1.Expected.skel_metrics_Reset := by rfl
theorem fact_metrics_RecordIterationResult : F1.Generated.skel_metrics_RecordIterationResult = F1.Expected.skel_metrics_RecordIterationResult := by rfl
theorem fact_active_Setup : F1.Generated.skel_active_Setup = F1.Expected.skel_active_Setup := by rfl

end F1.Props.FactsC16
