/-
C16 — regenerated facts: the anchored functions still read as the model of C16 assumes.
`Generated.*` is rewritten from /repo's working tree on every run; `Expected.*` is what the model was written against.
-/
import F1Verif.Generated.Facts
import F1Verif.Expected
namespace F1.Props.FactsC16

-- (active_Setup, active_Run, active_RecordDropped: re-proved semantically on the regenerated MiniGo programs, see Props/Refine*.lean)

theorem fact_metrics_labelValues : F1.Generated.skel_metrics_labelValues = F1.Expected.skel_metrics_labelValues := by rfl
theorem fact_metrics_labelKeys : F1.Generated.skel_metrics_labelKeys = F1.Expected.skel_metrics_labelKeys := by rfl
theorem fact_metrics_sortedKeys : F1.Generated.skel_metrics_sortedKeys = F1.Expected.skel_metrics_sortedKeys := by rfl
theorem fact_metrics_Reset : F1.Generated.skel_metrics_Reset = F1.Expected.skel_metrics_Reset := by rfl
theorem fact_metrics_RecordIterationResult : F1.Generated.skel_metrics_RecordIterationResult = F1.Expected.skel_metrics_RecordIterationResult := by rfl
theorem fact_metrics_build : F1.Generated.skel_metrics_build = F1.Expected.skel_metrics_build := by rfl
theorem fact_metrics_NewInstance : F1.Generated.skel_metrics_NewInstance = F1.Expected.skel_metrics_NewInstance := by rfl
theorem fact_metrics_RecordSetupResult : F1.Generated.skel_metrics_RecordSetupResult = F1.Expected.skel_metrics_RecordSetupResult := by rfl
theorem fact_metrics_RecordIterationStage : F1.Generated.skel_metrics_RecordIterationStage = F1.Expected.skel_metrics_RecordIterationStage := by rfl
theorem fact_run_Do : F1.Generated.skel_run_Do = F1.Expected.skel_run_Do := by rfl

end F1.Props.FactsC16
