/-
C06 (placement): in every execution of `Run.Do` setup runs exactly once and before the iterations; a failed setup
means no iteration at all; the setup cleanups (teardown) run exactly once, after `run` has returned — i.e. after every
started iteration has finished or the completion timeout expired — and before the summary and the end of `Do`.
-/
import F1Verif.Model.Lifecycle

namespace F1.Props.C06Do
open F1.Lifecycle

/-- the two executions of `Do`, spelt out (checked by evaluation of the program with `defer` semantics) -/
theorem C06_do_trace_ok : doTrace false =
    [.welcome, .resetMetrics, .setup, .pushMetrics, .recordStarted, .startPushTicker, .startProgress, .runAndWait,
     .stopProgress, .stopPushTicker, .getTotals, .teardown, .printSummary, .closeLog] := by decide

theorem C06_do_trace_setup_failed : doTrace true =
    [.welcome, .resetMetrics, .setup, .pushMetrics, .reportSetupFailure, .teardown, .printSummary, .closeLog] := by decide

/-- C06: whatever happens to setup — exactly one setup, exactly one teardown, teardown after setup and before the
summary; iterations (inside `runAndWait`) only when setup succeeded, then after setup and before teardown. -/
theorem C06_do_lifecycle (setupFailed : Bool) :
    count .setup (doTrace setupFailed) = 1 ∧ count .teardown (doTrace setupFailed) = 1 ∧
    count .printSummary (doTrace setupFailed) = 1 ∧
    count .runAndWait (doTrace setupFailed) = (if setupFailed then 0 else 1) ∧
    (∃ a b c, pos .setup (doTrace setupFailed) = some a ∧ pos .teardown (doTrace setupFailed) = some b ∧
      pos .printSummary (doTrace setupFailed) = some c ∧ a < b ∧ b < c) ∧
    (setupFailed = false → ∃ a r b, pos .setup (doTrace false) = some a ∧ pos .runAndWait (doTrace false) = some r ∧
      pos .teardown (doTrace false) = some b ∧ a < r ∧ r < b) := by
  cases setupFailed
  · refine ⟨by decide, by decide, by decide, by decide, ⟨2, 11, 12, by decide, by decide, by decide, by decide, by decide⟩, ?_⟩
    intro _
    exact ⟨2, 7, 11, by decide, by decide, by decide, by decide, by decide⟩
  · refine ⟨by decide, by decide, by decide, by decide, ⟨2, 5, 6, by decide, by decide, by decide, by decide, by decide⟩, ?_⟩
    intro h; cases h

/-- the progress reporter is stopped before the totals are taken and before teardown and summary are rendered
(C05's lock discipline relies on it) -/
theorem C06_do_progress_stopped_first :
    ∃ a b c, pos .stopProgress (doTrace false) = some a ∧ pos .getTotals (doTrace false) = some b ∧
      pos .teardown (doTrace false) = some c ∧ a < b ∧ b < c := ⟨8, 10, 11, by decide, by decide, by decide, by decide, by decide⟩

end F1.Props.C06Do
