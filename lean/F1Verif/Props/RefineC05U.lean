/- C05 / C15 / C04 — the code that sits between the run controller and the pools, regenerated: one stage of a config file
(`runStage`), the users trigger and the users-stage worker (`users.Rate`'s trigger closure, `users.NewWorker`), the body of
the progress runner's tick (`newProgressRunner`) and the goroutine that pushes metrics during a run (`Run.Do`). Selects are
choices of the runtime (oracle `$select<k>`), see Props/RefineC05R.lean. -/
import F1Verif.Props.RefineBase
import F1Verif.Props.RefineC02W

namespace F1.Props.Refine
open F1.MiniGo F1.Generated.MG

/-! `runStage` -/

def stageExt (c0 c1 : Nat) : Ext Rat := fun f _ args =>
  if f = "context.WithTimeout" then (match args with | .int 0 :: _ => .ref 1 | _ => .ref 2)
  else if f = "arg2.NewContinuousPool" then .ref 3
  else if f = "pool.Start" then .ref 4
  else if f = "$select0" then .int c0
  else if f = "$select1" then .int c1
  else .nil

def stageState (users dur guard : Int) (ctxEnded reached : Bool) : State Rat :=
  State.ofVars [("arg0", .ref 0), ("arg1", .ref 10), ("arg2", .ref 11), ("arg3.Params", .ref 12),
    ("arg3.StageDuration", .int dur), ("safeDurationBeforeNextStage", .int guard), ("arg3.UsersConcurrency", .int users),
    ("arg0.Err()", if ctxEnded then .nonNil else .nil), ("arg2.MaxIterationsReached()", .bool reached)]

/-- what one stage does between exporting its parameters and removing them -/
def stageSpec (users : Int) (over : Bool) (c0 c1 : Nat) : List String :=
  if 0 < users then
    "receive poolCtx.Done()" ::
      (if over then [] else
        "select{arg0.Done() | arg2.WaitForCompletion()}" ::
          (if c0 = 0 then ["receive arg0.Done()"] else ["receive arg2.WaitForCompletion()", "time.Sleep(…)"]))
  else
    ["go func", "select{arg0.Done() | stageDone}"] ++
      (if c1 = 0 then ["receive arg0.Done()", "receive stageDone"] else ["receive stageDone", "time.Sleep(…)"])

/-- **the regenerated `runStage`** (C15: a stage's parameters; C05 / D21b / D27: what a stage waits for). For every choice
of the runtime: the parameters are exported exactly once, before anything else (`setEnvs` is the first call, with the
stage's parameters); the stage context is the run's context limited to the stage's duration less the guard; a users stage
waits for its pool's context and then — unless the run is over or the limit reached, in which case it returns at once and
the run's bounded wait takes over — for its users, with the run's end as the alternative; a rate stage started in its own
goroutine is always waited for, also when the run ends first; and whichever way the stage is left, the stage context is
cancelled and then the parameters are removed (`unsetEnvs`, deferred first, so it runs last) -/
theorem file_runStage_refines (users dur guard : Int) (ctxEnded reached : Bool) (c0 c1 : Nat) (h0 : c0 < 2) (h1 : c1 < 2) :
    traceOf (runFn (stageExt c0 c1) 0 file_runStage (stageState users dur guard ctxEnded reached)) =
      stageSpec users (ctxEnded || reached) c0 c1 ++ ["stageCancel", "unsetEnvs(…)"] ∧
    (match runFn (stageExt c0 c1) 0 file_runStage (stageState users dur guard ctxEnded reached) with
     | .ok (_, s) =>
        lookup "setEnvs" s.arrs = some [[("0", Val.ref 12), ("1", Val.ref 10)]] ∧
        lookup "context.WithTimeout" s.arrs = some [[("0", Val.ref 0), ("1", Val.int (dur - guard))]]
     | .error _ => False) := by
  obtain rfl | rfl : c0 = 0 ∨ c0 = 1 := by omega
  all_goals obtain rfl | rfl : c1 = 0 ∨ c1 = 1 := by omega
  all_goals by_cases hu : 0 < users <;> cases ctxEnded <;> cases reached <;>
    simp [minigo, file_runStage, stageState, stageExt, stageSpec, hu]

/-- the parameters never outlive the stage: `unsetEnvs` is the last effect on every path -/
theorem file_runStage_unsets_last (users dur guard : Int) (ctxEnded reached : Bool) (c0 c1 : Nat) (h0 : c0 < 2) (h1 : c1 < 2) :
    (traceOf (runFn (stageExt c0 c1) 0 file_runStage (stageState users dur guard ctxEnded reached))).getLast? =
      some "unsetEnvs(…)" := by
  rw [(file_runStage_refines users dur guard ctxEnded reached c0 c1 h0 h1).1]
  simp

/-! the users trigger and the users-stage worker -/

def usersExt (c0 : Nat) : Ext Rat := fun f _ _ =>
  if f = "darg2.NewContinuousPool" ∨ f = "carg2.NewContinuousPool" then .ref 3
  else if f = "pool.Start" then .ref 4
  else if f = "$select0" then .int c0
  else .nil

/-- **the regenerated users trigger** (D21, D27): it starts the pool on the trigger's context and returns as soon as the
pool's own context ends — the trigger's context is over, or the iteration limit has been reached — or all users have
finished; it never waits for a user without that alternative -/
theorem users_trigger_refines (c0 : Nat) (h0 : c0 < 2) (conc : Int) :
    traceOf (runFn (usersExt c0) 0 users_trigger_body (State.ofVars [("darg0", .ref 0), ("darg2", .ref 11),
        ("darg3.Concurrency", .int conc)])) =
      ["select{poolCtx.Done() | darg2.WaitForCompletion()}",
       if c0 = 0 then "receive poolCtx.Done()" else "receive darg2.WaitForCompletion()"] ∧
    observe (runFn (usersExt c0) 0 users_trigger_body (State.ofVars [("darg0", .ref 0), ("darg2", .ref 11),
        ("darg3.Concurrency", .int conc)])) ["pool", "poolCtx"] = some ([], [some (.ref 3), some (.ref 4)]) := by
  obtain rfl | rfl : c0 = 0 ∨ c0 = 1 := by omega
  all_goals simp [minigo, users_trigger_body, usersExt]

/-- `users.NewWorker` (used by nothing that has a deadline of its own): starts the pool and waits for its users -/
theorem users_NewWorker_refines (conc : Int) :
    traceOf (runFn (usersExt 0) 0 users_NewWorker_body (State.ofVars [("arg0", .int conc), ("carg0", .ref 0),
        ("carg2", .ref 11)])) = ["receive carg2.WaitForCompletion()"] := by
  simp [minigo, users_NewWorker_body, usersExt]

/-! the progress runner's tick and the metrics goroutine -/

/-- **the body of a progress tick** (C05, C19): the period's snapshot is taken with the period the runner reports, then the
progress line built from the result is displayed, then — only if iterations were dropped — the warning is handed to the
`sync.Once` -/
theorem run_progressTick_refines (dropped : Bool) (rate : Int) :
    traceOf (runFn (usersExt 0) 0 run_progressTick_body (State.ofVars [("carg0", .int rate), ("arg0.Progress()", .ref 20),
        ("arg0.HasDroppedIterations()", .bool dropped)])) =
      ["arg0.SnapshotProgress(…)", "arg1.Display(…)"] ++ (if dropped then ["notifyDropped.Do(…)"] else []) ∧
    observe (runFn (usersExt 0) 0 run_progressTick_body (State.ofVars [("carg0", .int rate), ("arg0.Progress()", .ref 20),
        ("arg0.HasDroppedIterations()", .bool dropped)])) ["$arg.arg0.SnapshotProgress.0", "$arg.arg1.Display.0"] =
      some ([], [some (.int rate), some (.ref 20)]) := by
  cases dropped <;> simp [minigo, run_progressTick_body, usersExt]

theorem run_progressWarn_refines :
    traceOf (runFn (usersExt 0) 0 run_progressWarn_body (State.ofVars [])) = ["arg1.Display(…)"] := by
  simp [minigo, run_progressWarn_body]

/-- the choices of the runtime in the metrics goroutine -/
def pushExt (choice : Nat → Nat) : Ext Rat := fun f k _ =>
  if f = "$select0" then .int (choice k)
  else if f = "time.NewTicker" then .ref 30
  else .nil

def mlLoop : Stmt :=
  (.while (.bool true)
  (.seq (.effect "select{t.C | arg0.Done() | metricsCloseCh}")
  (.seq (.callS ["$select0"] "$select0" "" [])
  (.ite (.bin .eq (.var "$select0") (.int 0))
  (.seq (.effect "receive t.C")
  (.seq (.assign "$arg.recv.pushMetrics.0" (.var "arg0"))
  (.effect "recv.pushMetrics(…)")))
  (.ite (.bin .eq (.var "$select0") (.int 1))
  (.seq (.effect "receive arg0.Done()")
  .ret0)
  (.ite (.bin .eq (.var "$select0") (.int 2))
  (.seq (.effect "receive metricsCloseCh")
  .ret0)
  (.unsupported "select: no such case")))))))

def mlOffer : String := "select{t.C | arg0.Done() | metricsCloseCh}"

/-- the effects of the metrics goroutine's loop from round `k` -/
def pushRounds (choice : Nat → Nat) : Nat → Nat → Option (List String)
  | 0, _ => none
  | f + 1, k =>
    match choice k with
    | 0 => (pushRounds choice f (k + 1)).map ([mlOffer, "receive t.C", "recv.pushMetrics(…)"] ++ ·)
    | 1 => some [mlOffer, "receive arg0.Done()"]
    | 2 => some [mlOffer, "receive metricsCloseCh"]
    | _ => none

def mlState (t sel a0 : Val Rat) (k : Nat) (log : List (List (String × Val Rat))) (tr df : List String) (nt : Nat := 0) : State Rat :=
  ⟨[("arg0", .ref 0), ("metricsRefreshInterval", .int 5), ("t", t), ("$select0", sel), ("$arg.recv.pushMetrics.0", a0)],
   [("$select0", k), ("time.NewTicker", nt)], tr, df, [("$select0", log)]⟩

theorem mlLoop_spec (choice : Nat → Nat) (t : Val Rat) (df : List String) (nt : Nat) :
    ∀ (fuel k : Nat) (sel a0 : Val Rat) (log : List (List (String × Val Rat))) (tr : List String),
    obsTrace (exec (pushExt choice) fuel mlLoop (mlState t sel a0 k log tr df nt)) =
      (pushRounds choice fuel k).map (fun r => (tr.reverse ++ r, df))
  | 0, k, sel, a0, log, tr => by simp [minigo, mlLoop, mlState, pushRounds, obsTrace]
  | f + 1, k, sel, a0, log, tr => by
    rcases hc : choice k with _ | _ | _ | c
    · have ih := mlLoop_spec choice t df nt f (k + 1) (.int 0) (.ref 0) (log ++ [[]])
        ("recv.pushMetrics(…)" :: "receive t.C" :: mlOffer :: tr)
      simp [mlLoop, mlState, mlOffer] at ih
      simp [minigo, mlLoop, mlState, pushRounds, pushExt, hc, mlOffer]
      rw [ih]
      cases pushRounds choice f (k + 1) <;> simp
    · simp [minigo, mlLoop, mlState, pushRounds, pushExt, hc, mlOffer, obsTrace]
    · simp [minigo, mlLoop, mlState, pushRounds, pushExt, hc, mlOffer, obsTrace]
    · have h0 : ¬ ((c : Int) + 1 + 1 + 1 = 0) := by omega
      have h1 : ¬ ((c : Int) + 1 + 1 + 1 = 1) := by omega
      have h2 : ¬ ((c : Int) + 1 + 1 + 1 = 2) := by omega
      simp [minigo, mlLoop, mlState, pushRounds, pushExt, hc, obsTrace, h0, h1, h2]

/-- **the regenerated metrics goroutine of `Run.Do`** (C16): a ticker is created, every tick received pushes the metrics once,
the goroutine leaves when the run's context ends or the controller closes its channel, and its last act is stopping the
ticker -/
theorem run_metricsLoop_refines (choice : Nat → Nat) (t0 sel a0 : Val Rat) (k : Nat) (log : List (List (String × Val Rat)))
    (fuel : Nat) (r : List String) (h : pushRounds choice fuel k = some r) :
    traceOpt (runFn (pushExt choice) fuel run_metricsLoop_body (mlState t0 sel a0 k log [] [])) = some (r ++ ["t.Stop"]) := by
  have hl := mlLoop_spec choice (.ref 30) ["t.Stop"] 1 fuel k sel a0 log []
  rw [h] at hl
  simp [mlLoop, mlState] at hl
  have := finish_obsTrace _ _ _ hl
  simp [minigo, run_metricsLoop_body, mlState, pushExt]
  simpa using this

/-- as many pushes as ticks, and nothing after the goroutine was told to leave -/
theorem pushRounds_shape (choice : Nat → Nat) :
    ∀ (fuel k : Nat) (r : List String), pushRounds choice fuel k = some r →
      ∃ pre last, r = pre ++ [mlOffer, last] ∧ (last = "receive arg0.Done()" ∨ last = "receive metricsCloseCh") ∧
        pre.count "recv.pushMetrics(…)" = pre.count "receive t.C"
  | 0, k, r, h => by simp [pushRounds] at h
  | f + 1, k, r, h => by
    unfold pushRounds at h
    split at h
    · cases hr : pushRounds choice f (k + 1) with
      | none => simp [hr] at h
      | some r' =>
        obtain ⟨pre, last, rfl, hl, hc⟩ := pushRounds_shape choice f (k + 1) r' hr
        simp [hr] at h; subst h
        refine ⟨[mlOffer, "receive t.C", "recv.pushMetrics(…)"] ++ pre, last, by simp, hl, ?_⟩
        simp [mlOffer] at hc ⊢; exact hc
    · simp at h; subst h; exact ⟨[], _, by simp, Or.inl rfl, by simp⟩
    · simp at h; subst h; exact ⟨[], _, by simp, Or.inr rfl, by simp⟩
    · simp at h

/-! a stage's parameters: `setEnvs` / `unsetEnvs` (C15) -/

/-- the environment as an oracle: `os.Setenv` / `os.Unsetenv` succeed exactly when they are handed the entry the loop is
at — the `k`-th call the key (and value) of the `k`-th entry of the map, in the order this iteration visits it. A call with
anything else fails, and a failure is displayed: a trace without a display therefore means every entry was passed, once,
as it is. `bad` marks entries the environment refuses although they are passed correctly (a key containing `=`). -/
def envExt (bad : Nat → Bool) : Ext Rat := fun f k args =>
  if f = "os.Setenv" then (if args = [.ref (100 + k), .ref (200 + k)] ∧ bad k = false then .nil else .nonNil)
  else if f = "os.Unsetenv" then (if args = [.ref (100 + k)] ∧ bad k = false then .nil else .nonNil)
  else .nil

def envEntries (n : Nat) : List (List (String × Val Rat)) :=
  (List.range n).map fun k => [("key", Val.ref (100 + k)), ("", Val.ref (200 + k))]

def setLoop : Stmt :=
  (.while (.bin .lt (.var "$i0") (.var "$n0"))
  (.seq (.assign "key" (.index "arg0" (.var "$i0") "key"))
  (.seq (.assign "value" (.index "arg0" (.var "$i0") ""))
  (.seq (.seq (.assign "err" (.call2 "os.Setenv" (.var "key") (.var "value")))
  (.ite (.bin .ne (.var "err") .nil)
  (.seq (.assign "$arg.arg1.Display.0" .fresh)
  (.effect "arg1.Display(…)"))
  .skip))
  (.assign "$i0" (.bin .add (.var "$i0") (.int 1)))))))

def unsetLoop : Stmt :=
  (.while (.bin .lt (.var "$i0") (.var "$n0"))
  (.seq (.assign "key" (.index "arg0" (.var "$i0") "key"))
  (.seq (.seq (.assign "err" (.call1 "os.Unsetenv" (.var "key")))
  (.ite (.bin .ne (.var "err") .nil)
  (.seq (.assign "$arg.arg1.Display.0" .fresh)
  (.effect "arg1.Display(…)"))
  .skip))
  (.assign "$i0" (.bin .add (.var "$i0") (.int 1))))))

def envState (fn : String) (n : Nat) (i : Int) (key value err a0 : Val Rat) (c : Nat) (tr : List String) : State Rat :=
  ⟨[("arg1", .ref 10), ("$n0", .int n), ("$i0", .int i), ("key", key), ("value", value), ("err", err),
    ("$arg.arg1.Display.0", a0)], [(fn, c)], tr, [], [("arg0", envEntries n)]⟩

/-- the displays of the entries `i ..< i + k` (newest first): one per refused entry -/
def envDisplays (bad : Nat → Bool) (i : Nat) : Nat → List String
  | 0 => []
  | k + 1 => envDisplays bad (i + 1) k ++ (if bad i then ["arg1.Display(…)"] else [])

theorem setLoop_spec (bad : Nat → Bool) (n : Nat) :
    ∀ (k i : Nat) (key value err a0 : Val Rat) (tr : List String) (fuel : Nat), i + k = n → k + 1 ≤ fuel →
    ∃ key' value' err' a0', exec (envExt bad) fuel setLoop (envState "os.Setenv" n i key value err a0 i tr) =
      .normal (envState "os.Setenv" n n key' value' err' a0' n (envDisplays bad i k ++ tr))
  | 0, i, key, value, err, a0, tr, fuel, hik, hf => by
    obtain ⟨f, rfl⟩ : ∃ f, fuel = f + 1 := ⟨fuel - 1, by omega⟩
    have : i = n := by omega
    subst this
    exact ⟨key, value, err, a0, by simp [minigo, setLoop, envState, envDisplays]⟩
  | k + 1, i, key, value, err, a0, tr, fuel, hik, hf => by
    obtain ⟨f, rfl⟩ : ∃ f, fuel = f + 1 := ⟨fuel - 1, by omega⟩
    have h1 : (i : Int) < n := by omega
    have h2 : ¬ ((i : Int) < 0) := by omega
    have hlt : i < n := by omega
    have hr : (List.range n)[i]? = some i := by simp [hlt]
    cases hb : bad i
    · obtain ⟨k', v', e', a', ih⟩ := setLoop_spec bad n k (i + 1) (.ref (100 + i)) (.ref (200 + i)) .nil a0 tr f (by omega) (by omega)
      refine ⟨k', v', e', a', ?_⟩
      simp [setLoop, envState, envEntries] at ih
      simp [minigo, setLoop, envState, envEntries, envExt, envDisplays, h1, h2, hr, hb]
      rw [ih]
    · obtain ⟨k', v', e', a', ih⟩ := setLoop_spec bad n k (i + 1) (.ref (100 + i)) (.ref (200 + i)) .nonNil .nonNil
        ("arg1.Display(…)" :: tr) f (by omega) (by omega)
      refine ⟨k', v', e', a', ?_⟩
      simp [setLoop, envState, envEntries] at ih
      simp [minigo, setLoop, envState, envEntries, envExt, envDisplays, h1, h2, hr, hb]
      rw [ih]

theorem unsetLoop_spec (bad : Nat → Bool) (n : Nat) :
    ∀ (k i : Nat) (key value err a0 : Val Rat) (tr : List String) (fuel : Nat), i + k = n → k + 1 ≤ fuel →
    ∃ key' err' a0', exec (envExt bad) fuel unsetLoop (envState "os.Unsetenv" n i key value err a0 i tr) =
      .normal (envState "os.Unsetenv" n n key' value err' a0' n (envDisplays bad i k ++ tr))
  | 0, i, key, value, err, a0, tr, fuel, hik, hf => by
    obtain ⟨f, rfl⟩ : ∃ f, fuel = f + 1 := ⟨fuel - 1, by omega⟩
    have : i = n := by omega
    subst this
    exact ⟨key, err, a0, by simp [minigo, unsetLoop, envState, envDisplays]⟩
  | k + 1, i, key, value, err, a0, tr, fuel, hik, hf => by
    obtain ⟨f, rfl⟩ : ∃ f, fuel = f + 1 := ⟨fuel - 1, by omega⟩
    have h1 : (i : Int) < n := by omega
    have h2 : ¬ ((i : Int) < 0) := by omega
    have hlt : i < n := by omega
    have hr : (List.range n)[i]? = some i := by simp [hlt]
    cases hb : bad i
    · obtain ⟨k', e', a', ih⟩ := unsetLoop_spec bad n k (i + 1) (.ref (100 + i)) value .nil a0 tr f (by omega) (by omega)
      refine ⟨k', e', a', ?_⟩
      simp [unsetLoop, envState, envEntries] at ih
      simp [minigo, unsetLoop, envState, envEntries, envExt, envDisplays, h1, h2, hr, hb]
      rw [ih]
    · obtain ⟨k', e', a', ih⟩ := unsetLoop_spec bad n k (i + 1) (.ref (100 + i)) value .nonNil .nonNil
        ("arg1.Display(…)" :: tr) f (by omega) (by omega)
      refine ⟨k', e', a', ?_⟩
      simp [unsetLoop, envState, envEntries] at ih
      simp [minigo, unsetLoop, envState, envEntries, envExt, envDisplays, h1, h2, hr, hb]
      rw [ih]

/-- the state `setEnvs` / `unsetEnvs` start in (locals declared) -/
def envState0 (fn : String) (n : Nat) (l : List (Val Rat)) : State Rat :=
  ⟨[("arg1", .ref 10), ("$n0", l.getD 0 .nil), ("$i0", l.getD 1 .nil), ("key", l.getD 2 .nil), ("value", l.getD 3 .nil),
    ("err", l.getD 4 .nil), ("$arg.arg1.Display.0", l.getD 5 .nil)], [(fn, 0)], [], [], [("arg0", envEntries n)]⟩

/-- **the regenerated `setEnvs`** (C15): every entry of the stage's parameters is exported — `os.Setenv` is called once per
entry, with that entry's own key and value (the oracle fails any other call, and a failure would be displayed) — and the
only displays are those of the entries the environment itself refuses; in particular a refused entry does not stop the loop:
the entries after it are still exported -/
theorem file_setEnvs_refines (bad : Nat → Bool) (n : Nat) (l : List (Val Rat)) (fuel : Nat) (hf : n + 1 ≤ fuel) :
    traceOf (runFn (envExt bad) fuel file_setEnvs (envState0 "os.Setenv" n l)) = (envDisplays bad 0 n).reverse ∧
    observeC (runFn (envExt bad) fuel file_setEnvs (envState0 "os.Setenv" n l)) [] ["os.Setenv"] = some ([], [], [n]) := by
  obtain ⟨k', v', e', a', h⟩ := setLoop_spec bad n n 0 (l.getD 2 .nil) (l.getD 3 .nil) (l.getD 4 .nil) (l.getD 5 .nil) [] fuel
    (by omega) hf
  simp [setLoop, envState, envEntries] at h
  simp [minigo, file_setEnvs, envState0, envEntries, h, envState]

/-- **the regenerated `unsetEnvs`** (C15: none of them remain set): `os.Unsetenv` once per entry, with that entry's key -/
theorem file_unsetEnvs_refines (bad : Nat → Bool) (n : Nat) (l : List (Val Rat)) (fuel : Nat) (hf : n + 1 ≤ fuel) :
    traceOf (runFn (envExt bad) fuel file_unsetEnvs (envState0 "os.Unsetenv" n l)) = (envDisplays bad 0 n).reverse ∧
    observeC (runFn (envExt bad) fuel file_unsetEnvs (envState0 "os.Unsetenv" n l)) [] ["os.Unsetenv"] = some ([], [], [n]) := by
  obtain ⟨k', e', a', h⟩ := unsetLoop_spec bad n n 0 (l.getD 2 .nil) (l.getD 3 .nil) (l.getD 4 .nil) (l.getD 5 .nil) [] fuel
    (by omega) hf
  simp [unsetLoop, envState, envEntries] at h
  simp [minigo, file_unsetEnvs, envState0, envEntries, h, envState]

/-- with an environment that refuses nothing there is no display at all -/
theorem envDisplays_none (i k : Nat) : envDisplays (fun _ => false) i k = [] := by
  induction k generalizing i with
  | zero => rfl
  | succ k ih => simp [envDisplays, ih]

/-- the goroutine a rate stage runs in: the stage's own tick worker is built from the stage's interval and rate function and
run on the *stage* context; `stageDone` is closed when it returns (deferred) -/
theorem file_stageGoroutine_refines :
    traceOf (runFn (usersExt 0) 0 file_stageGoroutine_body (State.ofVars [("stageDone", .ref 7), ("stageCtx", .ref 1),
        ("arg1", .ref 10), ("arg2", .ref 11), ("arg4", .ref 13), ("arg3.IterationDuration", .int 100), ("arg3.Rate", .ref 14)])) =
      ["close(…)"] ∧
    (match runFn (usersExt 0) 0 file_stageGoroutine_body (State.ofVars [("stageDone", .ref 7), ("stageCtx", .ref 1),
        ("arg1", .ref 10), ("arg2", .ref 11), ("arg4", .ref 13), ("arg3.IterationDuration", .int 100), ("arg3.Rate", .ref 14)]) with
     | .ok (_, s) => lookup "doWork" s.arrs = some [[("0", Val.ref 1), ("1", Val.ref 10), ("2", Val.ref 11), ("3", Val.ref 13)]]
     | .error _ => False) := by
  simp [minigo, file_stageGoroutine_body, usersExt]

end F1.Props.Refine
