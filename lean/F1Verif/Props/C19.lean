/-
C19 — summary and progress output state the same numbers as the result they are rendered from.
`resultToks` / `progressToks` (Model/Template) are the two templates after lexing; that the regenerated
template text still lexes to them is checked by the driver on every run (op `tmpl`), and that the text is
the one recorded is the obligation `fact_tmpl_*` (Props/FactsC19).
-/
import F1Verif.Model.Template
import F1Verif.Model.Render
import F1Verif.Props.FactsC19
namespace F1.Props.C19
open F1.Template

/-- the truth assignment of the five fields the result template branches on -/
def truth (failed err succ fail dropped : Bool) (f : String) : Bool :=
  if f = ".Failed" then failed else if f = ".Error" then err
  else if f = ".SuccessfulIterationCount" then succ else if f = ".FailedIterationCount" then fail
  else if f = ".DroppedIterationCount" then dropped else false

/-- one count line of the summary: the count itself, its share of `.Iterations`, its rate -/
def countLine (label colour field durations : String) (perSecond : Bool) : List Out :=
  [.lit ("\n{bold}" ++ label ++ ":{-} {" ++ colour ++ "}"), .expr field, .lit " (",
   .expr ("percent " ++ field ++ " .Iterations | printf \"%0.2f\""), .lit "%, ",
   .expr ("rate .Duration " ++ field), .lit ((if perSecond then "/second" else "") ++ "){-} " ++ (if durations = "" then "(consider increasing --concurrency setting)" else ""))] ++
  (if durations = "" then [] else [.expr durations])

/-- the layout the property names: banner by the verdict alone, error line iff an error, the
started line, one line per non-zero count — each showing *its own* count, share and rate — and the
log path -/
def resultLayout (failed err succ fail dropped : Bool) : List Out :=
  merge ([.lit (if failed then "\n{red}{bold}{u}Load Test Failed{-}" else "\n{green}{bold}{u}Load Test Passed{-}")] ++
    (if err then [.lit "\n{red}Error: ", .expr ".Error", .lit "{-}"] else []) ++
    [.lit "\n", .expr ".IterationsStarted", .lit " iterations started in ", .expr "duration .Duration", .lit " (",
     .expr "rate .Duration .IterationsStarted", .lit "/second)"] ++
    (if succ then countLine "Successful Iterations" "green" ".SuccessfulIterationCount" ".SuccessfulIterationDurations" true else []) ++
    (if fail then countLine "Failed Iterations" "red" ".FailedIterationCount" ".FailedIterationDurations" false else []) ++
    (if dropped then countLine "Dropped Iterations" "yellow" ".DroppedIterationCount" "" false else []) ++
    [.lit "\n{bold}Full logs:{-} ", .expr ".LogFilePath", .lit "\n"]) none

/-- C19 (summary layout): for every combination of verdict, error and zero / non-zero counts the
result template evaluates to exactly the layout the property names. In particular `percent` is only
evaluated under a non-zero count, and never with another count's field. -/
theorem C19_result_layout : ∀ failed err succ fail dropped : Bool,
    merge (eval (truth failed err succ fail dropped) resultToks [] 0) none = resultLayout failed err succ fail dropped := by
  decide +kernel

def progressLayout (dropped : Bool) : List Out :=
  merge ([.lit "{cyan}[", .expr "durationSeconds .Duration | printf \"%5s\"", .lit "]{-}  {green}✔ ",
    .expr "printf \"%5d\" .SuccessfulIterationCount", .lit "{-}  "] ++
    (if dropped then [.lit "{yellow}⦸ ", .expr "printf \"%5d\" .DroppedIterationCount", .lit "{-}  "] else []) ++
    [.lit "{red}✘ ", .expr "printf \"%5d\" .FailedIterationCount", .lit "{-} {light_black}(",
     .expr "rate .Period .SuccessfulIterationDurationsForPeriod.Count", .lit "/s){-}   ",
     .expr ".SuccessfulIterationDurationsForPeriod"]) none

theorem C19_progress_layout : ∀ dropped : Bool,
    merge (eval (fun f => f = ".DroppedIterationCount" && dropped) progressToks [] 0) none = progressLayout dropped := by
  decide +kernel

/-- the share shown for a count is a share of *all* iterations: whenever it is shown the divisor is
positive (the count is part of the iterations), so it is never 0/0 -/
theorem C19_percent_defined (count iterations : Nat) (h : 0 < count) (hle : count ≤ iterations) : 0 < iterations := by
  omega

/-- `rate` is total: a zero (rounded) duration yields 0 instead of dividing by it -/
theorem C19_rate_zero_duration (count : Nat) (d : Int) (h : F1.Render.roundSecond d / 1000000000 = 0) :
    F1.Render.rate d count = 0 := by
  unfold F1.Render.rate; simp [h]

end F1.Props.C19
