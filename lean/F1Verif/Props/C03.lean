/-
C03 — max-iterations is a hard ceiling; iteration ids are unique and gapless.
-/
import F1Verif.Model.Iteration
import F1Verif.Props.Pool
namespace F1.Props.C03
open F1.Iteration

theorem calls_unlimited : ∀ (k c : Nat), accepted (calls 0 k c) = List.range' (c + 1) k := by
  intro k
  induction k with
  | zero => intro c; rfl
  | succ k ih => intro c; simp [calls, next, accepted, List.range'] at *; exact ih (c + 1)

theorem calls_limited (N : Nat) (hN : 0 < N) : ∀ (k c : Nat),
    accepted (calls N k c) = List.range' (c + 1) (min k (N - c)) := by
  intro k
  induction k with
  | zero => intro c; simp [calls, accepted]
  | succ k ih =>
    intro c
    by_cases h : c + 1 > N
    · have hz : N - c = 0 := by omega
      have : accepted (calls N k (c + 1)) = [] := by
        rw [ih]; have : N - (c + 1) = 0 := by omega
        simp [this]
      simp only [calls, next, accepted, hN, h, and_self, if_true, List.filterMap_cons] at *
      simp [this, hz]
    · have h' : ¬ (N > 0 ∧ c + 1 > N) := by omega
      have hm : min (k + 1) (N - c) = min k (N - (c + 1)) + 1 := by omega
      simp only [calls, next, accepted, h', if_false, List.filterMap_cons] at *
      rw [hm, List.range'_succ]
      simp only [id]
      congr 1
      exact ih (c + 1)

/-- C03 (ids): the ids observed over any number of calls — by any number of workers, since each
call is one atomic increment — are exactly `1..k'`: distinct, gapless, starting at 1, and with a
limit `N > 0` there are exactly `min k N` of them. -/
theorem C03_ids (N k : Nat) :
    accepted (calls N k 0) = List.range' 1 (if N = 0 then k else min k N) := by
  by_cases hN : N = 0
  · subst hN; simpa using calls_unlimited k 0
  · have := calls_limited N (by omega) k 0
    simpa [hN] using this

/-- at most `N` invocations, whatever the number of requests -/
theorem C03_ceiling (N k : Nat) (hN : 0 < N) : (accepted (calls N k 0)).length ≤ N := by
  rw [C03_ids]; have : N ≠ 0 := by omega
  simp [this]; omega

/-- exactly `N` when work keeps being requested until the limit stops it -/
theorem C03_exact_on_limit (N k : Nat) (hN : 0 < N) (hk : N ≤ k) : (accepted (calls N k 0)).length = N := by
  rw [C03_ids]; have : N ≠ 0 := by omega
  simp [this]; omega

theorem C03_distinct (N k : Nat) : (accepted (calls N k 0)).Nodup := by
  rw [C03_ids]; exact List.nodup_range'

/-- the "limit reached" flag is raised exactly by a refused call -/
theorem C03_reached_iff_refused (N c : Nat) : reached N (next N c).1 = true ↔ (next N c).2 = none := by
  unfold reached next; simp

-- non-vacuity
example : calls 3 5 0 = [some 1, some 2, some 3, none, none] := by decide

/-! ### lifted to the pool: every schedule of workers competing for the last ids -/

/-- in every reachable state of the pool the number of started iterations is the number of ids
handed out (all of them without a limit, at most `N` with one): every started iteration has a
distinct id from `1..started`, and `started ≤ N`. -/
theorem C03_pool_started (W N : Nat) (evs : List F1.TriggerPool.Ev) (s : F1.TriggerPool.State)
    (h : F1.TriggerPool.run false (F1.TriggerPool.init W N) evs = some s) :
    (N = 0 → s.started = s.counter) ∧ (N > 0 → s.started = min (s.counter : Int) N ∧ s.started ≤ N) := by
  have c := (F1.Props.Pool.reachable_init W N evs s h).1
  have hl : s.limit = N := by
    have : ∀ (evs : List F1.TriggerPool.Ev) (a b : F1.TriggerPool.State), F1.TriggerPool.run false a evs = some b → b.limit = a.limit := by
      intro evs
      induction evs with
      | nil => intro a b h; simp only [F1.TriggerPool.run] at h; cases h; rfl
      | cons e es ih =>
        intro a b h
        simp only [F1.TriggerPool.run] at h
        split at h
        · cases h
        · rename_i a1 h1
          rw [ih a1 b h]
          cases e <;> simp only [F1.TriggerPool.step, Bool.false_eq_true, false_or, true_and, Bool.not_false, Bool.true_and] at h1 <;>
            (repeat' split at h1) <;> cases h1 <;> rfl
    exact this evs _ _ h
  have := c.ids
  rw [hl] at this
  exact ⟨this.1, fun hN => ⟨this.2 hN, by have := this.2 hN; omega⟩⟩

end F1.Props.C03
