/- C20 — the two closures of the regenerated `CombineScenarios` (pkg/f1/f1_scenarios.go), executed by the MiniGo
semantics: the setup closure calls every component's `ScenarioFn` once, in the given order, with the one setup handle, and
keeps the iteration functions they return in that order; the iteration closure calls those, in that order, with the
iteration's handle; a component that panics (FailNow is a panic) ends the loop there — the later ones are not called.
The loops have a symbolic trip count: induction over the components still to be called. -/
import F1Verif.Props.RefineBase
import F1Verif.Model.Handle

namespace F1.Props.Refine
open F1.MiniGo F1.Generated.MG

section combine
variable {F : Type} [FloatLike F]

abbrev Rec (F : Type) := List (String × Val F)

/-- what a dynamic call `f(t)` leaves in the call log -/
def callRec (f t : Val F) : Rec F := [("0", f), ("1", t)]

/-- the calls the iteration closure makes on the components `cs` when `j` dynamic calls have been made before: the log
and whether a component panicked -/
def invokeAll (ext : Ext F) (t : Val F) : List (Val F) → Nat → List (Rec F) → List (Rec F) × Bool
  | [], _, log => (log, false)
  | c :: cs, j, log =>
    if isTrue (ext "$dyn.panics" j [c, t]) = true then (log ++ [callRec c t], true)
    else invokeAll ext t cs (j + 1) (log ++ [callRec c t])

/-- what is visible of an outcome: the call log, and whether the function is unwinding from a panic -/
def obsCalls (o : Outcome F) : Option (List (Rec F) × Bool) :=
  match o with
  | .normal s => some ((lookup "$dyn" s.arrs).getD [], false)
  | .returned _ s => some ((lookup "$dyn" s.arrs).getD [], false)
  | .panicked s => some ((lookup "$dyn" s.arrs).getD [], true)
  | .error _ => none

def iterLoop : Stmt :=
  (.while (.bin .lt (.var "$i1") (.var "$n1"))
  (.seq (.assign "r" (.index "run" (.var "$i1") ""))
  (.seq (.callS [] "$dyn" "$dyn.panics" [(.var "r"), (.var "darg0")])
  (.assign "$i1" (.bin .add (.var "$i1") (.int 1))))))

def iterState (t : Val F) (run : List (Val F)) (n i : Int) (r : Val F) (j : Nat) (log : List (Rec F)) : State F :=
  ⟨[("darg0", t), ("$n1", .int n), ("$i1", .int i), ("r", r)], [("$dyn", j)], [], [],
   [("run", run.map fun c => [("", c)]), ("$dyn", log)]⟩

theorem iterLoop_spec (ext : Ext F) (t : Val F) : ∀ (rest pre : List (Val F)) (r : Val F) (j : Nat) (log : List (Rec F)) (fuel : Nat),
    rest.length + 1 ≤ fuel →
    obsCalls (exec ext fuel iterLoop (iterState t (pre ++ rest) ((pre ++ rest).length) pre.length r j log)) =
      some (invokeAll ext t rest j log)
  | [], pre, r, j, log, fuel, hf => by
    obtain ⟨f, rfl⟩ : ∃ f, fuel = f + 1 := ⟨fuel - 1, by simp at hf; omega⟩
    simp [minigo, iterLoop, iterState, invokeAll, obsCalls]
  | c :: rest, pre, r, j, log, fuel, hf => by
    obtain ⟨f, rfl⟩ : ∃ f, fuel = f + 1 := ⟨fuel - 1, by simp at hf; omega⟩
    have ih := iterLoop_spec ext t rest (pre ++ [c]) c (j + 1) (log ++ [callRec c t]) f (by simp at hf ⊢; omega)
    simp only [List.append_assoc, List.singleton_append, List.length_append, List.length_singleton] at ih
    have h1 : (pre.length : Int) < pre.length + ((rest.length : Int) + 1) := by omega
    have h2 : ¬ ((pre.length : Int) < 0) := by omega
    simp [iterLoop, iterState] at ih
    by_cases hp : isTrue (ext "$dyn.panics" j [c, t]) = true
    · simp [minigo, iterLoop, iterState, invokeAll, obsCalls, h1, h2, hp, callRec]
    · simp [minigo, iterLoop, iterState, invokeAll, h1, h2, hp, callRec]
      simp [callRec] at ih
      rw [← ih]

/-- the iteration closure with its locals declared (any values: it assigns each before reading it) -/
def iterState0 (t : Val F) (run : List (Val F)) (n0 i0 r0 : Val F) (j : Nat) (log : List (Rec F)) : State F :=
  ⟨[("darg0", t), ("$n1", n0), ("$i1", i0), ("r", r0)], [("$dyn", j)], [], [],
   [("run", run.map fun c => [("", c)]), ("$dyn", log)]⟩

/-- **the regenerated iteration closure** calls the kept iteration functions in order with the iteration's handle,
up to and including the first that panics -/
theorem combine_iter_refines (ext : Ext F) (t : Val F) (run : List (Val F)) (n0 i0 r0 : Val F) (j : Nat) (log : List (Rec F))
    (fuel : Nat) (hf : run.length + 1 ≤ fuel) :
    obsCalls (exec ext fuel combine_iter_body (iterState0 t run n0 i0 r0 j log)) = some (invokeAll ext t run j log) := by
  have h := iterLoop_spec ext t run [] r0 j log fuel hf
  simp [iterLoop, iterState] at h
  simp [minigo, combine_iter_body, iterState0, h]

/-- no component panics: every one is called, in order, each with the same handle -/
theorem invokeAll_all (ext : Ext F) (t : Val F) : ∀ (cs : List (Val F)) (j : Nat) (log : List (Rec F)),
    (∀ k, (h : k < cs.length) → isTrue (ext "$dyn.panics" (j + k) [cs[k], t]) = false) →
    invokeAll ext t cs j log = (log ++ cs.map (callRec · t), false)
  | [], _, _, _ => by simp [invokeAll]
  | c :: cs, j, log, h => by
    have h0 := h 0 (by simp)
    simp at h0
    have ih := invokeAll_all ext t cs (j + 1) (log ++ [callRec c t]) (by
      intro k hk
      have := h (k + 1) (by simp; omega)
      simpa [Nat.add_assoc, Nat.add_comm 1 k] using this)
    simp [invokeAll, h0, ih]

/-- the first component that panics is the last one called -/
theorem invokeAll_stop (ext : Ext F) (t : Val F) : ∀ (pre : List (Val F)) (c : Val F) (post : List (Val F)) (j : Nat) (log : List (Rec F)),
    (∀ k, (h : k < pre.length) → isTrue (ext "$dyn.panics" (j + k) [pre[k], t]) = false) →
    isTrue (ext "$dyn.panics" (j + pre.length) [c, t]) = true →
    invokeAll ext t (pre ++ c :: post) j log = (log ++ (pre ++ [c]).map (callRec · t), true)
  | [], c, post, j, log, _, hc => by simp at hc; simp [invokeAll, hc]
  | p :: pre, c, post, j, log, h, hc => by
    have h0 := h 0 (by simp)
    simp at h0
    have ih := invokeAll_stop ext t pre c post (j + 1) (log ++ [callRec p t]) (by
      intro k hk
      have := h (k + 1) (by simp; omega)
      simpa [Nat.add_assoc, Nat.add_comm 1 k] using this) (by
      simpa [Nat.add_assoc, Nat.add_comm 1 pre.length] using hc)
    simp [invokeAll, h0, ih]

/-- up to and including the first element that satisfies `p` -/
def takeThrough {α} (p : α → Bool) : List α → List α
  | [] => []
  | a :: l => if p a then [a] else a :: takeThrough p l

/-- the specification's "components that actually run" (`Handle.executedComps`, which the C20 theorems are stated
with) is `takeThrough` of "this component stops the iteration" -/
theorem executedComps_eq_takeThrough : ∀ ps : List F1.Handle.Prog,
    F1.Handle.executedComps ps = takeThrough F1.Handle.Prog.stops ps
  | [] => rfl
  | p :: ps => by simp [F1.Handle.executedComps, takeThrough, executedComps_eq_takeThrough ps]

/-- when the components that panic are those that `stops` marks, the calls made are exactly the specification's
"components that actually run", in order, each with the same handle -/
theorem invokeAll_takeThrough (ext : Ext F) (t : Val F) (stops : Val F → Bool) : ∀ (cs : List (Val F)) (j : Nat) (log : List (Rec F)),
    (∀ k, (h : k < cs.length) → isTrue (ext "$dyn.panics" (j + k) [cs[k], t]) = stops cs[k]) →
    invokeAll ext t cs j log = (log ++ (takeThrough stops cs).map (callRec · t), cs.any stops)
  | [], _, _, _ => by simp [invokeAll, takeThrough]
  | c :: cs, j, log, h => by
    have h0 := h 0 (by simp)
    simp at h0
    have ih := invokeAll_takeThrough ext t stops cs (j + 1) (log ++ [callRec c t]) (by
      intro k hk
      have := h (k + 1) (by simp; omega)
      simpa [Nat.add_assoc, Nat.add_comm 1 k] using this)
    by_cases hc : stops c = true
    · simp [invokeAll, takeThrough, h0, hc]
    · simp [invokeAll, takeThrough, h0, hc, ih]

/-! #### the setup closure -/

/-- the calls the setup closure makes: the log, the iteration functions kept (`run`), and whether a component panicked -/
def setupAll (ext : Ext F) (t : Val F) : List (Val F) → Nat → List (Rec F) → List (Val F) → List (Rec F) × List (Val F) × Bool
  | [], _, log, run => (log, run, false)
  | c :: cs, j, log, run =>
    if isTrue (ext "$dyn.panics" j [c, t]) = true then (log ++ [callRec c t], run, true)
    else setupAll ext t cs (j + 1) (log ++ [callRec c t]) (run ++ [ext "$dyn" j [.int 0, c, t]])

def obsSetup (o : Outcome F) : Option (List (Rec F) × List (Rec F) × Bool) :=
  match o with
  | .normal s => some ((lookup "$dyn" s.arrs).getD [], (lookup "run" s.arrs).getD [], false)
  | .returned _ s => some ((lookup "$dyn" s.arrs).getD [], (lookup "run" s.arrs).getD [], false)
  | .panicked s => some ((lookup "$dyn" s.arrs).getD [], (lookup "run" s.arrs).getD [], true)
  | .error _ => none

/-- the closing `return func(t *testing.T) { … }` changes nothing that is observed -/
theorem obsSetup_andThen_ret (ext : Ext F) (fuel : Nat) (o : Outcome F) :
    obsSetup (o.andThen fun s => exec ext fuel (.ret1 .fresh) s) = obsSetup o := by
  cases o <;> simp [Outcome.andThen, exec, evalE, bindS, obsSetup]

def combineSetupLoop : Stmt :=
  (.while (.bin .lt (.var "$i0") (.var "$n0"))
  (.seq (.assign "s" (.index "arg0" (.var "$i0") ""))
  (.seq (.seq (.callS ["$elem"] "$dyn" "$dyn.panics" [(.var "s"), (.var "carg0")]) (.append "run" (.var "$elem")))
  (.assign "$i0" (.bin .add (.var "$i0") (.int 1))))))

def combineSetupState (t : Val F) (comps : List (Val F)) (rv n i sv ev : Val F) (j : Nat) (log : List (Rec F)) (run : List (Val F)) : State F :=
  ⟨[("carg0", t), ("run", rv), ("$n0", n), ("$i0", i), ("s", sv), ("$elem", ev)], [("$dyn", j)], [], [],
   [("arg0", comps.map fun c => [("", c)]), ("run", run.map fun c => [("", c)]), ("$dyn", log)]⟩

def recs (l : List (Val F)) : List (Rec F) := l.map fun c => [("", c)]

theorem setupLoop_spec (ext : Ext F) (t : Val F) : ∀ (rest pre : List (Val F)) (rv sv ev : Val F) (j : Nat) (log : List (Rec F))
    (run : List (Val F)) (fuel : Nat), rest.length + 1 ≤ fuel →
    obsSetup (exec ext fuel combineSetupLoop
        (combineSetupState t (pre ++ rest) rv (.int (pre ++ rest).length) (.int pre.length) sv ev j log run)) =
      some ((setupAll ext t rest j log run).1, recs (setupAll ext t rest j log run).2.1, (setupAll ext t rest j log run).2.2)
  | [], pre, rv, sv, ev, j, log, run, fuel, hf => by
    obtain ⟨f, rfl⟩ : ∃ f, fuel = f + 1 := ⟨fuel - 1, by simp at hf; omega⟩
    simp [minigo, combineSetupLoop, combineSetupState, setupAll, obsSetup, recs]
  | c :: rest, pre, rv, sv, ev, j, log, run, fuel, hf => by
    obtain ⟨f, rfl⟩ : ∃ f, fuel = f + 1 := ⟨fuel - 1, by simp at hf; omega⟩
    have ih := setupLoop_spec ext t rest (pre ++ [c]) .nonNil c (ext "$dyn" j [.int 0, c, t]) (j + 1) (log ++ [callRec c t])
      (run ++ [ext "$dyn" j [.int 0, c, t]]) f (by simp at hf ⊢; omega)
    simp only [List.append_assoc, List.singleton_append, List.length_append, List.length_singleton] at ih
    have h1 : (pre.length : Int) < pre.length + ((rest.length : Int) + 1) := by omega
    have h2 : ¬ ((pre.length : Int) < 0) := by omega
    simp [combineSetupLoop, combineSetupState] at ih
    by_cases hp : isTrue (ext "$dyn.panics" j [c, t]) = true
    · simp [minigo, combineSetupLoop, combineSetupState, setupAll, obsSetup, h1, h2, hp, callRec, recs]
    · simp [minigo, combineSetupLoop, combineSetupState, setupAll, h1, h2, hp, callRec]
      simp [callRec] at ih
      rw [← ih]

/-- **the regenerated setup closure** calls every component once, in the given order, with the one setup handle, keeps
what they return in that order, and stops at the first that panics -/
theorem combine_setup_refines (ext : Ext F) (t : Val F) (comps : List (Val F)) (rv n i sv ev : Val F) (j : Nat) (log : List (Rec F))
    (fuel : Nat) (hf : comps.length + 1 ≤ fuel) :
    obsSetup (exec ext fuel combine_setup_body (combineSetupState t comps rv n i sv ev j log [])) =
      some ((setupAll ext t comps j log []).1, recs (setupAll ext t comps j log []).2.1, (setupAll ext t comps j log []).2.2) := by
  have h := setupLoop_spec ext t comps [] .nil sv ev j log [] fuel hf
  simp [combineSetupLoop, combineSetupState] at h
  rcases hr : setupAll ext t comps j log [] with ⟨a, b, p⟩
  rw [hr] at h
  simp [minigo, combine_setup_body, combineSetupState]
  rw [obsSetup_andThen_ret]
  simpa using h

/-- setup with components that stop as `stops` says: the calls are the specification's "components that actually run",
and the iteration functions kept are those the components before the first stopping one returned, in order -/
theorem setupAll_takeThrough (ext : Ext F) (t : Val F) (stops : Val F → Bool) : ∀ (cs : List (Val F)) (j : Nat) (log : List (Rec F))
    (run : List (Val F)),
    (∀ k, (h : k < cs.length) → isTrue (ext "$dyn.panics" (j + k) [cs[k], t]) = stops cs[k]) →
    (setupAll ext t cs j log run).1 = log ++ (takeThrough stops cs).map (callRec · t) ∧
    (setupAll ext t cs j log run).2.2 = cs.any stops ∧
    (setupAll ext t cs j log run).2.1.length = run.length + (cs.takeWhile (fun c => !stops c)).length
  | [], _, _, _, _ => by simp [setupAll, takeThrough]
  | c :: cs, j, log, run, h => by
    have h0 := h 0 (by simp)
    simp at h0
    have ih := setupAll_takeThrough ext t stops cs (j + 1) (log ++ [callRec c t]) (run ++ [ext "$dyn" j [.int 0, c, t]]) (by
      intro k hk
      have := h (k + 1) (by simp; omega)
      simpa [Nat.add_assoc, Nat.add_comm 1 k] using this)
    by_cases hc : stops c = true
    · simp [setupAll, takeThrough, h0, hc]
    · simp [setupAll, takeThrough, h0, hc, ih]
      omega

/-- … and when none stops, the i-th kept iteration function is what the i-th component returned for the setup handle -/
theorem setupAll_all (ext : Ext F) (t : Val F) : ∀ (cs : List (Val F)) (j : Nat) (log : List (Rec F)) (run : List (Val F)),
    (∀ k, (h : k < cs.length) → isTrue (ext "$dyn.panics" (j + k) [cs[k], t]) = false) →
    setupAll ext t cs j log run =
      (log ++ cs.map (callRec · t), run ++ (List.range cs.length).map (fun k => ext "$dyn" (j + k) [.int 0, cs[k]?.getD .nil, t]), false)
  | [], _, _, _, _ => by simp [setupAll]
  | c :: cs, j, log, run, h => by
    have h0 := h 0 (by simp)
    simp at h0
    have ih := setupAll_all ext t cs (j + 1) (log ++ [callRec c t]) (run ++ [ext "$dyn" j [.int 0, c, t]]) (by
      intro k hk
      have := h (k + 1) (by simp; omega)
      simpa [Nat.add_assoc, Nat.add_comm 1 k] using this)
    simp [setupAll, h0, ih, List.range_succ_eq_map, Nat.add_assoc, Nat.add_comm 1]

/-- the premises are satisfiable and the conclusion says something: three components, the second panics -/
example : invokeAll (F := Float) (fun f n _ => if f = "$dyn.panics" ∧ n = 1 then .bool true else .nil) (.ref 9) [.ref 1, .ref 2, .ref 3] 0 [] =
    ([callRec (.ref 1) (.ref 9), callRec (.ref 2) (.ref 9)], true) := by
  simp [invokeAll, MiniGo.isTrue, callRec]

end combine
end F1.Props.Refine
