import F1Verif.Drive.Verdict
import F1Verif.Drive.Distribution
import F1Verif.Drive.Progress
import F1Verif.Drive.Handle
import F1Verif.Drive.Staged
import F1Verif.Drive.Jitter
import F1Verif.Drive.Labels
import F1Verif.Drive.Iteration
import F1Verif.Drive.Parse
import F1Verif.Drive.Plan
import F1Verif.Drive.Run
import F1Verif.Drive.Pool
import F1Verif.Drive.Render
import F1Verif.Drive.Gaussian
import F1Verif.Drive.Cli
import F1Verif.Drive.MiniGo
/-!
Line-protocol driver (`f1model`). One case per line on stdin:

  `<id> <op> <args…> | <implementation output tokens…>`

Answer, one line per case: `<id>\t<model output>\t<spec verdict on the implementation output>`
where the spec verdict is `ok` or `FAIL <clause>`. Unknown ops / unparsable args give `bad-op`.
-/
open F1.Drive

def dispatch (op : String) : Option (List String → List String → Option (String × String)) :=
  match op with
  | "verdict" => some verdict
  | "mg.verdict" => some mgVerdict
  | "mg.iter.seq" => some mgIterSeq
  | "mg.jobcounter" => some mgJobcounter
  | "mg.dist" => some mgDist
  | "mg.staged" => some mgStaged
  | "mg.ramp" => some mgRamp
  | "mg.gauss" => some mgGauss
  | "mg.scn" => some mgScn
  | "mg.plan" => some mgPlan
  | "dist" => some dist
  | "run" => some runOp
  | "cli" => some cliOp
  | "gauss" => some gauss
  | "render" => some render
  | "tmpl" => some tmplOp
  | "jobcounter" => some jobcounter
  | "pool.script" => some poolScript
  | "pool.stress" => some poolSpec
  | "pool.race" => some poolSpec
  | "pool.usable" => some poolSpec
  | "pool.handles" => some poolSpec
  | "pool.cancelledstart" => some poolSpec
  | "result.stress" => some resultStress
  | "raterun.stop" => some raterunOp
  | "raterun.switch" => some raterunOp
  | "raterun.count" => some raterunOp
  | "raterun.order" => some raterunOp
  | "raterun.newstart" => some raterunOp
  | "plan" => some plan
  | "bfile" => some bfile
  | "gaussvol" => some gaussvol
  | "pipeline" => some pipelineOp
  | "calc.constant" => some (calcOp "constant")
  | "calc.constantj" => some (calcOp "constantj")
  | "calc.ramp" => some (calcOp "ramp")
  | "calc.staged" => some (calcOp "staged")
  | "calc.gaussian" => some (calcOp "gaussian")
  | "atoi" => some atoiOp
  | "parsedur" => some parsedurOp
  | "parserate" => some parserateOp
  | "parsestages" => some parsestagesOp
  | "iter.seq" => some iterSeq
  | "iter.stress" => some idsSpec
  | "pool.ids" => some idsSpec
  | "labels" => some labels
  | "jitter" => some jitter
  | "bjitter" => some (fun a i => jitter (a.drop 1) i)
  | "staged" => some staged
  | "bstaged" => some bstaged
  | "bramp" => some bramp
  | "ramp" => some ramp
  | "scn" => some scn
  | "scn2" => some scn2
  | "scn.measure" => some scnMeasure
  | "scn.measuremany" => some scnMeasureMany
  | "scn.counts" => some scnCounts
  | "progress.seq" => some progressSeq
  | "progress.script" => some progressScript
  | "progress.stress" => some progressStress
  | "distsum" => some distsum
  | _ => none

def handle (line : String) : String :=
  let line := line.trimAscii.toString
  let (lhs, rhs) := match line.splitOn " | " with
    | [l, r] => (l, r)
    | [l] => (l, "")
    | _ => (line, "")
  let toks (s : String) := (s.splitOn " ").filter (· ≠ "")
  match toks lhs with
  | id :: op :: args =>
    match dispatch op with
    | some h =>
      match h args (toks rhs) with
      | some (m, s) => s!"{id}\t{m}\t{s}"
      | none => s!"{id}\tbad-op\tbad-op"
    | none => s!"{id}\tbad-op\tbad-op"
  | _ => "?\tbad-op\tbad-op"

partial def loop (h : IO.FS.Stream) (out : IO.FS.Stream) : IO Unit := do
  let line ← h.getLine
  if line.isEmpty then return ()
  if line.trimAscii.toString.isEmpty then loop h out else
  out.putStrLn (handle line)
  loop h out

def main : IO Unit := do
  let out ← IO.getStdout
  loop (← IO.getStdin) out
  out.flush
