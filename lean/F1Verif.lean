-- This module serves as the root of the `F1Verif` library.
-- Import modules here that should be built as part of the library.
import F1Verif.Basic
